/-
Line-protocol driver for the client engine (C28 two-phase commit; C30 Redis read-modify-write).
Reply format: `<model>\t<spec>`; spec patterns: `*` anything, `a|b` alternatives, `pre*` prefix.

C28 op lines (keys, regions, versions, values are decimal numbers):
  seedput k s c v            an earlier transaction (start s, commit c) put v on key k
  seedlock k s ttl           another transaction (start s) holds a lock on k
  txn p=<k> start=<n> cv=<n> ttl=<n> muts=<k>:<p|d>:<v>,…  regions=<k>:<r>,…
                             defines the transaction and starts the client (blocked at RPC 0)
  deliver | drop | lose | notleader | redeliver <i> | restart      (TwoPC.lean `Op`)
  check <cur> | resolve <k>,<k>,…                                   resolver steps
  foreign <k> <fts> <ttl> <v> | foreignabort <k> <fts> | foreigncommit <k> <fts> <fcv>
  | foreignresolve <k> <fts> <fcv> | foreigncheck <k> <fts> <cur>   requests of another transaction on one key
  get <k> <version>
  observe                    reads every key of the transaction at its commit version; the spec
                             column is the atomicity statement of C28 (all new or none new, and
                             never a change of mind once settled)
-/
import Driver.Lib
import NoKVModel.Base.Cfg
import NoKVModel.Client.TwoPC
import NoKVModel.Client.Redis

open NoKV NoKV.Client Driver

structure Seed where
  key : Nat
  commitTs : Nat
  val : Nat

structure St where
  cfg : ClientCfg := ClientCfg.good
  rcfg : RedisCfg := RedisCfg.good
  store : Store := Store.empty
  txn : Option Txn := none
  sys : Option Sys := none
  seeds : List Seed := []
  decided : Option Bool := none      -- spec monitor: first settled observation (true = all new)
  red : RState := RState.start 0 []

def splitList (s : String) (sep : String) : List String :=
  if s == "-" || s == "" then [] else s.splitOn sep

def setCfg (st : St) (kv : String) : Option St :=
  match kv.splitOn "=" with
  | [k, v] =>
    match k with
    | "client.commitOrder" =>
      if v == "primaryAlone" then some { st with cfg := { st.cfg with commitOrder := .primaryAlone } }
      else if v == "regionGrouped" then some { st with cfg := { st.cfg with commitOrder := .regionGrouped } }
      else none
    | "client.primaryCommitErrStops" => do
      let b ← boolOfString? v; pure { st with cfg := { st.cfg with primaryCommitErrStops := b } }
    | "perc.commitNoLockRejectsRollback" => do
      let b ← boolOfString? v; pure { st with cfg := { st.cfg with perc := { st.cfg.perc with commitNoLockRejectsRollback := b } } }
    | "perc.getSkipsRollback" => do
      let b ← boolOfString? v; pure { st with cfg := { st.cfg with perc := { st.cfg.perc with readSkipsRollback := b } } }
    | "perc.prewriteForeignLock" => if v == "locked" then some st else none     -- only this shape is modelled
    | "perc.rollbackChecksOwner" => if v == "true" then some st else none        -- only this shape is modelled
    | "txn.trackGet" => do
      let b ← boolOfString? v; pure { st with rcfg := { st.rcfg with trackGet := b } }
    | "redis.detectConflicts" => do
      let b ← boolOfString? v; pure { st with rcfg := { st.rcfg with detectConflicts := b } }
    | "redis.raftConflictFromReadTs" => do
      let b ← boolOfString? v; pure { st with rcfg := { st.rcfg with raftConflictFromReadTs := b } }
    | _ => none
  | _ => none

def insertNat (x : Nat) : List Nat → List Nat
  | [] => [x]
  | y :: ys => if x < y then x :: y :: ys else if x = y then y :: ys else y :: insertNat x ys

def sortDedup (l : List Nat) : List Nat := l.foldr insertNat []

/-- distinct elements in order of first appearance -/
def firstSeen (l : List Nat) : List Nat :=
  (l.foldl (fun acc x => if acc.contains x then acc else x :: acc) []).reverse

def parseMut? (s : String) : Option Mut :=
  match s.splitOn ":" with
  | [k, o, v] => do
    let k ← natOf? k; let v ← natOf? v
    let o ← (if o == "p" then some Kind.put else if o == "d" then some Kind.del else none)
    pure ⟨k, o, v⟩
  | _ => none

def parsePair? (s : String) : Option (Nat × Nat) :=
  match s.splitOn ":" with
  | [a, b] => do let a ← natOf? a; let b ← natOf? b; pure (a, b)
  | _ => none

def natsStr (l : List Nat) : String := ",".intercalate (l.map toString)

def rpcStr : Rpc → String
  | .prewrite ms => "pre:" ++ natsStr (ms.map (·.key))
  | .commit ks => "com:" ++ natsStr ks

def errsStr (l : List KErr) : String :=
  if l.isEmpty then "ok" else "err:" ++ ",".intercalate (l.map KErr.str)

/-- store-side result of an RPC, as the gate in the harness classifies the response -/
def rpcResult (c : ClientCfg) (t : Txn) (rpc : Rpc) (s : Store) : String :=
  match rpc with
  | .prewrite ms => errsStr (prewrite t.start t.ttl ms s).2
  | .commit ks => let e := (commit c.perc t.start t.cv ks s).2; if e = .ok then "ok" else "err:" ++ e.str

/-- spec-level committed map before the transaction: newest seed with commit ts ≤ v -/
def seedVal (seeds : List Seed) (k v : Nat) : Option Nat :=
  let cands := seeds.filter (fun s => s.key = k ∧ s.commitTs ≤ v)
  (cands.foldl (fun (best : Option Seed) s =>
      match best with
      | none => some s
      | some b => if b.commitTs < s.commitTs then some s else some b) none).map (·.val)

def optStr : Option Nat → String
  | some v => s!"val:{v}" | none => "notfound"

/-- all strings `k=<alt>` joined by spaces, one alternative per key, as a list of full lines -/
def combos : List (List String) → List String
  | [] => [""]
  | alts :: rest =>
    let tails := combos rest
    alts.foldr (fun a acc => (tails.map (fun t => if t == "" then a else a ++ " " ++ t)) ++ acc) []

def dedupStr (l : List String) : List String :=
  l.foldr (fun x acc => if acc.contains x then acc else x :: acc) []

/-- C28 on one observation: every key shows the transaction's write, or every key shows what was
    committed before it (timestamps are unique: no seed shares one with the transaction).  A deleted
    key that was absent before reads the same in both outcomes. -/
def observeSpec (st : St) (t : Txn) (obs : List (Mut × GetRes)) : String × Option Bool :=
  if obs.any (fun p => p.2 = .locked) then ("*", st.decided)
  else
    let newLine := " ".intercalate (t.muts.map fun m => s!"{m.key}=" ++ optStr m.dataVal)
    let oldAlts := t.muts.map fun m =>
      let old := seedVal st.seeds m.key t.cv
      [s!"{m.key}=" ++ optStr old]
    let oldLines := combos oldAlts
    let discriminating := t.muts.any (fun m => m.kind = .put)
    let allNew := obs.all (fun p => decide (p.2 = (match p.1.dataVal with | some v => GetRes.val v | none => GetRes.notFound)))
    let now : Option Bool := if discriminating then some allNew else none
    let allowed : List String :=
      match st.decided with
      | some true => [newLine]
      | some false => oldLines
      | none => newLine :: oldLines
    ("|".intercalate (dedupStr allowed), match st.decided with | some d => some d | none => now)

def statusOf (y : Sys) : String := "st=" ++ y.status.str

def withSys (st : St) (f : Txn → Sys → St × String) : St × String :=
  match st.txn, st.sys with
  | some t, some y => f t y
  | _, _ => (st, "no-txn\t*")

def stepOp (st : St) (t : Txn) (y : Sys) (op : Op) (desc : String) : St × String :=
  let y' := step st.cfg t y op
  ({ st with sys := some y' }, desc ++ " " ++ statusOf y' ++ "\t*")

def step' (st : St) (toks : List String) : St × String :=
  match toks with
  | "cfg" :: kvs =>
    match kvs.foldlM setCfg st with
    | some st' => (st', "ok")
    | none => (st, "bad-cfg")
  -- ---------------------------------------------------------------- C28
  | ["seedput", k, s, c, v] =>
    match natOf? k, natOf? s, natOf? c, natOf? v with
    | some k, some s, some c, some v =>
      let r := prewrite s 0 [⟨k, .put, v⟩] st.store
      let r2 := commit st.cfg.perc s c [k] r.1
      -- the spec-level map counts a seed only if it was accepted (seed lines are set-up)
      let okSeed := r.2.isEmpty && decide (r2.2 = .ok)
      ({ st with store := r2.1, seeds := if okSeed then ⟨k, c, v⟩ :: st.seeds else st.seeds },
        errsStr r.2 ++ "/" ++ (if r2.2 = .ok then "ok" else "err:" ++ r2.2.str) ++ "\t*")
    | _, _, _, _ => (st, "bad-op")
  | "regions" :: _ => (st, "ok\t*")
  | ["seedlock", k, s, ttl] =>
    match natOf? k, natOf? s, natOf? ttl with
    | some k, some s, some ttl =>
      let r := prewrite s ttl [⟨k, .put, 0⟩] st.store
      ({ st with store := r.1 }, errsStr r.2 ++ "\t*")
    | _, _, _ => (st, "bad-op")
  | "txn" :: kvs =>
    let r : Option Txn := do
      let p ← (kv? kvs "p").bind natOf?
      let s ← (kv? kvs "start").bind natOf?
      let c ← (kv? kvs "cv").bind natOf?
      let ttl ← (kv? kvs "ttl").bind natOf?
      let ms ← (splitList ((kv? kvs "muts").getD "-") ",").mapM parseMut?
      let rs ← (splitList ((kv? kvs "regions").getD "-") ",").mapM parsePair?
      let region : Nat → Nat := fun k => ((rs.find? (fun p => p.1 = k)).map (·.2)).getD 0
      let others := firstSeen ((ms.map (fun m => region m.key)).filter (fun r => r ≠ region p))
      pure { primary := p, start := s, cv := c, ttl := ttl, muts := ms, region := region,
             preOrder := others, comOrder := others }
    match r with
    | some t =>
      let y := Sys.init st.store
      let y := if (program st.cfg t).isEmpty then { y with status := .done } else y
      ({ st with txn := some t, sys := some y, decided := none }, "ok " ++ statusOf y ++ "\t*")
    | none => (st, "bad-op")
  | ["deliver"] => withSys st fun t y =>
    if y.status ≠ .running then (st, "idle " ++ statusOf y ++ "\t*") else
    match (program st.cfg t)[y.pc]? with
    | none => stepOp st t y .deliver "none"
    | some rpc => stepOp st t y .deliver (rpcStr rpc ++ " " ++ rpcResult st.cfg t rpc y.store)
  | ["lose"] => withSys st fun t y =>
    if y.status ≠ .running then (st, "idle " ++ statusOf y ++ "\t*") else
    match (program st.cfg t)[y.pc]? with
    | none => stepOp st t y .lose "none"
    | some rpc => stepOp st t y .lose (rpcStr rpc ++ " " ++ rpcResult st.cfg t rpc y.store)
  | ["drop"] => withSys st fun t y =>
    if y.status ≠ .running then (st, "idle " ++ statusOf y ++ "\t*") else
    match (program st.cfg t)[y.pc]? with
    | none => stepOp st t y .drop "none"
    | some rpc => stepOp st t y .drop (rpcStr rpc ++ " dropped")
  | ["notleader"] => withSys st fun t y =>
    if y.status ≠ .running then (st, "idle " ++ statusOf y ++ "\t*") else
    match (program st.cfg t)[y.pc]? with
    | none => stepOp st t y .notLeader "none"
    | some rpc => stepOp st t y .notLeader (rpcStr rpc ++ " notleader")
  | ["redeliver", i] => withSys st fun t y =>
    match natOf? i with
    | some i =>
      if i ≤ y.pcMax then
        match (program st.cfg t)[i]? with
        | none => stepOp st t y (.redeliver i) "none"
        | some rpc => stepOp st t y (.redeliver i) (rpcStr rpc ++ " " ++ rpcResult st.cfg t rpc y.store)
      else stepOp st t y (.redeliver i) "none"
    | none => (st, "bad-op")
  | ["restart"] => withSys st fun t y =>
    if y.status = .running then (st, "busy " ++ statusOf y ++ "\t*") else stepOp st t y .restart "restarted"
  | ["check", cur] => withSys st fun t y =>
    match natOf? cur with
    | some cur =>
      let r := checkTxnStatus t.start cur (y.store t.primary)
      let y' := step st.cfg t y (.check cur)
      ({ st with sys := some y' }, r.2.str ++ "\t*")
    | none => (st, "bad-op")
  | ["resolve", ks] => withSys st fun t y =>
    match (splitList ks ",").mapM natOf? with
    | some ks =>
      let own := t.ownKeys ks
      let n := (own.filter (fun k => match (y.store k).lock with | some l => l.ts = t.start | none => false)).length
      let y' := step st.cfg t y (.resolve ks)
      let out (cv : Nat) : String :=
        let e := (resolveLock t.start cv own y.store).2
        if e = .ok then s!"ok:{n}" else "err:" ++ e.str
      let res := match y.learned with
        | some (.committed cv) => if cv = 0 then "skip" else out cv
        | some .rolledBack => out 0
        | _ => "skip"
      ({ st with sys := some y' }, res ++ "\t*")
    | none => (st, "bad-op")
  -- requests of another transaction (start ts `fts`) on one key, through the real store on the other side
  | ["foreign", k, fts, ttl, v] => withSys st fun t y =>
    match natOf? k, natOf? fts, natOf? ttl, natOf? v with
    | some k, some fts, some ttl, some v =>
      let e := (prewriteKey fts ttl ⟨k, .put, v⟩ (y.store k)).2
      let y' := step st.cfg t y (.other (.prewrite ⟨k, .put, v⟩ fts ttl))
      ({ st with sys := some y' }, (if e = .ok then "ok" else "err:" ++ e.str) ++ "\t*")
    | _, _, _, _ => (st, "bad-op")
  | ["foreignabort", k, fts] => withSys st fun t y =>
    match natOf? k, natOf? fts with
    | some k, some fts => ({ st with sys := some (step st.cfg t y (.other (.rollback k fts))) }, "ok\t*")
    | _, _ => (st, "bad-op")
  | ["foreigncommit", k, fts, fcv] => withSys st fun t y =>
    match natOf? k, natOf? fts, natOf? fcv with
    | some k, some fts, some fcv =>
      let e := (commitReqKey st.cfg.perc fts fcv (y.store k)).2
      ({ st with sys := some (step st.cfg t y (.other (.commit k fts fcv))) },
        (if e = .ok then "ok" else "err:" ++ e.str) ++ "\t*")
    | _, _, _ => (st, "bad-op")
  | ["foreignresolve", k, fts, fcv] => withSys st fun t y =>
    match natOf? k, natOf? fts, natOf? fcv with
    | some k, some fts, some fcv =>
      let n := match (y.store k).lock with | some l => if l.ts = fts then 1 else 0 | none => 0
      let e := (resolveKey fts fcv (y.store k)).2
      ({ st with sys := some (step st.cfg t y (.other (.resolve k fts fcv))) },
        (if e = .ok then s!"ok:{n}" else "err:" ++ e.str) ++ "\t*")
    | _, _, _ => (st, "bad-op")
  | ["foreigncheck", k, fts, cur] => withSys st fun t y =>
    match natOf? k, natOf? fts, natOf? cur with
    | some k, some fts, some cur =>
      let r := (checkTxnStatus fts cur (y.store k)).2
      ({ st with sys := some (step st.cfg t y (.other (.check k fts cur))) }, r.str ++ "\t*")
    | _, _, _ => (st, "bad-op")
  | ["get", k, v] => withSys st fun _ y =>
    match natOf? k, natOf? v with
    | some k, some v => (st, (get st.cfg.perc (y.store k) v).str ++ "\t*")
    | _, _ => (st, "bad-op")
  | ["observe"] => withSys st fun t y =>
    let obs := t.muts.map fun m => (m, get st.cfg.perc (y.store m.key) t.cv)
    let line := " ".intercalate (obs.map fun p => s!"{p.1.key}=" ++ p.2.str)
    let (spec, dec) := observeSpec st t obs
    ({ st with decided := dec }, line ++ "\t" ++ spec)
  -- ---------------------------------------------------------------- C30
  | _ =>
    match redisStep st.rcfg st.red toks with
    | some (r, out) => ({ st with red := r }, out)
    | none => (st, "bad-op")

def main : IO Unit := Driver.loop ({} : St) step'

-- stub: replaced by the client engine driver
def main : IO Unit := pure ()

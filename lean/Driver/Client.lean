/-
Line-protocol driver for the client engine (C28 two-phase commit; C30 Redis read-modify-write).
Reply format: `<model>\t<spec>`; spec patterns: `*` anything, `a|b` alternatives, `pre*` prefix.

C28 op lines (keys, regions, versions, values are decimal numbers):
  seedput k s c v            an earlier transaction (start s, commit c) put v on key k
  seedlock k s ttl           another transaction (start s) holds a lock on k
  txn p=<k> start=<n> cv=<n> ttl=<n> muts=<k>:<p|d>:<v>,…  regions=<k>:<r>,…
                             defines the transaction and starts the client (blocked at RPC 0)
  deliver | drop | lose | notleader | redeliver <i> | restart      (TwoPC.lean `Op`)
  epoch | split | merge                                            region topology changes hitting the pending RPC
  check <cur> | resolve <k>,<k>,…                                   resolver steps
  foreign <k> <fts> <ttl> <v> | foreignabort <k> <fts> | foreigncommit <k> <fts> <fcv>
  | foreignresolve <k> <fts> <fcv> | foreigncheck <k> <fts> <cur>   requests of another transaction on one key
  get <k> <version>
  e.reset | e.begin <i> incr <d>|setnx <v> | e.commit <i> | e.ropen <j> | e.rclose <j> | e.other
  | e.stall | e.unstall | e.get | e.getnx      C30: clients scheduled step by step on the in-process DB
  observe                    reads every key of the transaction at its commit version; the spec
                             column is the atomicity statement of C28 (all new or none new, and
                             never a change of mind once settled)
-/
import Driver.Lib
import NoKVModel.Base.Cfg
import NoKVModel.Client.TwoPC
import NoKVModel.Client.Redis

open NoKV NoKV.Client Driver

structure Seed where
  key : Nat
  commitTs : Nat
  val : Nat

structure St where
  cfg : ClientCfg := ClientCfg.good
  rcfg : RedisCfg := RedisCfg.good
  store : Store := Store.empty
  txn : Option Txn := none
  sys : Option Sys := none
  seeds : List Seed := []
  decided : Option Bool := none      -- spec monitor: first settled observation (true = all new)
  world : List (Nat × Nat) := []     -- key ↦ region id as the cluster has it now (splits / merges)
  stale : List Nat := []             -- keys that left their region since the current run grouped them
  splitDone : List Nat := []         -- regions already split or merged away in this case
  red : RState := RState.start 0 []
  -- C30 scheduled embedded engine (`e.*` lines)
  est : RState := RState.start 0 [[], [], [], []]
  stalled : Bool := false
  pendC : List String := []          -- results of commits issued during a stall, in order
  blockedB : List (Nat × Cmd) := []  -- begins that wait for the stalled commits
  readers : List Nat := []           -- open read-only transactions

def splitList (s : String) (sep : String) : List String :=
  if s == "-" || s == "" then [] else s.splitOn sep

def setCfg (st : St) (kv : String) : Option St :=
  match kv.splitOn "=" with
  | [k, v] =>
    match k with
    | "client.commitOrder" =>
      if v == "primaryAlone" then some { st with cfg := { st.cfg with commitOrder := .primaryAlone } }
      else if v == "regionGrouped" then some { st with cfg := { st.cfg with commitOrder := .regionGrouped } }
      else none
    | "client.primaryCommitErrStops" => do
      let b ← boolOfString? v; pure { st with cfg := { st.cfg with primaryCommitErrStops := b } }
    | "perc.commitNoLockRejectsRollback" => do
      let b ← boolOfString? v; pure { st with cfg := { st.cfg with perc := { st.cfg.perc with commitNoLockRejectsRollback := b } } }
    | "prewrite.keepsOwnLock" => do
      let b ← boolOfString? v; pure { st with cfg := { st.cfg with perc := { st.cfg.perc with prewriteKeepsOwnLock := b } } }
    | "perc.getSkipsRollback" => do
      let b ← boolOfString? v; pure { st with cfg := { st.cfg with perc := { st.cfg.perc with readSkipsRollback := b } } }
    | "perc.prewriteForeignLock" => if v == "locked" then some st else none     -- only this shape is modelled
    | "client.prewriteSendsAll" => if v == "true" then some st else none       -- only this shape is modelled
    | "client.commitSendsAll" => if v == "true" then some st else none         -- only this shape is modelled
    | "perc.rollbackChecksOwner" => if v == "true" then some st else none        -- only this shape is modelled
    | "oracle.readMarkDoneOnce" => if v == "true" then some st else none       -- only this shape is modelled
    | "oracle.historyPrunedByReadMarkOnly" => if v == "true" then some st else none
    | "oracle.readTsWaitsUnbounded" => if v == "true" then some st else none   -- only this shape is modelled
    | "txn.trackGet" => do
      let b ← boolOfString? v; pure { st with rcfg := { st.rcfg with trackGet := b } }
    | "redis.detectConflicts" => do
      let b ← boolOfString? v; pure { st with rcfg := { st.rcfg with detectConflicts := b } }
    | "redis.raftConflictFromReadTs" => do
      let b ← boolOfString? v; pure { st with rcfg := { st.rcfg with raftConflictFromReadTs := b } }
    | _ => none
  | _ => none

def insertNat (x : Nat) : List Nat → List Nat
  | [] => [x]
  | y :: ys => if x < y then x :: y :: ys else if x = y then y :: ys else y :: insertNat x ys

def sortDedup (l : List Nat) : List Nat := l.foldr insertNat []

/-- distinct elements in order of first appearance -/
def firstSeen (l : List Nat) : List Nat :=
  (l.foldl (fun acc x => if acc.contains x then acc else x :: acc) []).reverse

def parseMut? (s : String) : Option Mut :=
  match s.splitOn ":" with
  | [k, o, v] => do
    let k ← natOf? k; let v ← natOf? v
    let o ← (if o == "p" then some Kind.put else if o == "d" then some Kind.del else none)
    pure ⟨k, o, v⟩
  | _ => none

def parsePair? (s : String) : Option (Nat × Nat) :=
  match s.splitOn ":" with
  | [a, b] => do let a ← natOf? a; let b ← natOf? b; pure (a, b)
  | _ => none

def natsStr (l : List Nat) : String := ",".intercalate (l.map toString)

def rpcStr : Rpc → String
  | .prewrite ms => "pre:" ++ natsStr (ms.map (·.key))
  | .commit ks => "com:" ++ natsStr ks

def errsStr (l : List KErr) : String :=
  if l.isEmpty then "ok" else "err:" ++ ",".intercalate (l.map KErr.str)

/-- store-side result of an RPC, as the gate in the harness classifies the response -/
def rpcResult (c : ClientCfg) (t : Txn) (rpc : Rpc) (s : Store) : String :=
  match rpc with
  | .prewrite ms => errsStr (prewrite c.perc t.start t.ttl ms s).2
  | .commit ks => let e := (commit c.perc t.start t.cv ks s).2; if e = .ok then "ok" else "err:" ++ e.str

/-- spec-level committed map before the transaction: newest seed with commit ts ≤ v -/
def seedVal (seeds : List Seed) (k v : Nat) : Option Nat :=
  let cands := seeds.filter (fun s => s.key = k ∧ s.commitTs ≤ v)
  (cands.foldl (fun (best : Option Seed) s =>
      match best with
      | none => some s
      | some b => if b.commitTs < s.commitTs then some s else some b) none).map (·.val)

def optStr : Option Nat → String
  | some v => s!"val:{v}" | none => "notfound"

/-- all strings `k=<alt>` joined by spaces, one alternative per key, as a list of full lines -/
def combos : List (List String) → List String
  | [] => [""]
  | alts :: rest =>
    let tails := combos rest
    alts.foldr (fun a acc => (tails.map (fun t => if t == "" then a else a ++ " " ++ t)) ++ acc) []

def dedupStr (l : List String) : List String :=
  l.foldr (fun x acc => if acc.contains x then acc else x :: acc) []

/-- C28 on one observation: every key shows the transaction's write, or every key shows what was
    committed before it (timestamps are unique: no seed shares one with the transaction).  A deleted
    key that was absent before reads the same in both outcomes. -/
def observeSpec (st : St) (t : Txn) (aborted : Bool) (obs : List (Mut × GetRes)) : String × Option Bool :=
  if obs.any (fun p => p.2 = .locked) then ("*", st.decided)
  else
    let newLine := " ".intercalate (t.muts.map fun m => s!"{m.key}=" ++ optStr m.dataVal)
    let oldAlts := t.muts.map fun m =>
      let old := seedVal st.seeds m.key t.cv
      [s!"{m.key}=" ++ optStr old]
    let oldLines := combos oldAlts
    let discriminating := t.muts.any (fun m => m.kind = .put)
    let allNew := obs.all (fun p => decide (p.2 = (match p.1.dataVal with | some v => GetRes.val v | none => GetRes.notFound)))
    -- "all new" is final; "none new" is final only once a resolver has found the primary rolled
    -- back (a client that merely gave up may retry with the same versions and succeed)
    let now : Option Bool := if discriminating ∧ (allNew ∨ aborted) then some allNew else none
    let allowed : List String :=
      match st.decided with
      | some true => [newLine]
      | some false => oldLines
      | none => newLine :: oldLines
    ("|".intercalate (dedupStr allowed), match st.decided with | some d => some d | none => now)

def rpcKeys : Rpc → List Nat
  | .prewrite ms => ms.map (·.key)
  | .commit ks => ks

/-- the pending RPC names a key that no longer lives in the region the run grouped it under:
the store refuses it (EpochNotMatch) whatever epoch the client sends -/
def isStale (st : St) (rpc : Rpc) : Bool := (rpcKeys rpc).any (fun k => st.stale.contains k)

def statusOf (y : Sys) : String := "st=" ++ y.status.str

def withSys (st : St) (f : Txn → Sys → St × String) : St × String :=
  match st.txn, st.sys with
  | some t, some y => f t y
  | _, _ => (st, "no-txn\t*")

def stepOp (st : St) (t : Txn) (y : Sys) (op : Op) (desc : String) : St × String :=
  let y' := step st.cfg t y op
  ({ st with sys := some y' }, desc ++ " " ++ statusOf y' ++ "\t*")

def step' (st : St) (toks : List String) : St × String :=
  match toks with
  | "cfg" :: kvs =>
    match kvs.foldlM setCfg st with
    | some st' => (st', "ok")
    | none => (st, "bad-cfg")
  -- ---------------------------------------------------------------- C28
  | ["seedput", k, s, c, v] =>
    match natOf? k, natOf? s, natOf? c, natOf? v with
    | some k, some s, some c, some v =>
      let r := prewrite st.cfg.perc s 0 [⟨k, .put, v⟩] st.store
      let r2 := commit st.cfg.perc s c [k] r.1
      -- the spec-level map counts a seed only if it was accepted (seed lines are set-up)
      let okSeed := r.2.isEmpty && decide (r2.2 = .ok)
      ({ st with store := r2.1, seeds := if okSeed then ⟨k, c, v⟩ :: st.seeds else st.seeds },
        errsStr r.2 ++ "/" ++ (if r2.2 = .ok then "ok" else "err:" ++ r2.2.str) ++ "\t*")
    | _, _, _, _ => (st, "bad-op")
  | "regions" :: _ => (st, "ok\t*")
  | ["seedlock", k, s, ttl] =>
    match natOf? k, natOf? s, natOf? ttl with
    | some k, some s, some ttl =>
      let r := prewrite st.cfg.perc s ttl [⟨k, .put, 0⟩] st.store
      ({ st with store := r.1 }, errsStr r.2 ++ "\t*")
    | _, _, _ => (st, "bad-op")
  | "txn" :: kvs =>
    let r : Option Txn := do
      let p ← (kv? kvs "p").bind natOf?
      let s ← (kv? kvs "start").bind natOf?
      let c ← (kv? kvs "cv").bind natOf?
      let ttl ← (kv? kvs "ttl").bind natOf?
      let ms ← (splitList ((kv? kvs "muts").getD "-") ",").mapM parseMut?
      let rs ← (splitList ((kv? kvs "regions").getD "-") ",").mapM parsePair?
      let region : Nat → Nat := fun k => ((rs.find? (fun p => p.1 = k)).map (·.2)).getD 0
      let others := firstSeen ((ms.map (fun m => region m.key)).filter (fun r => r ≠ region p))
      pure { primary := p, start := s, cv := c, ttl := ttl, muts := ms, region := region,
             preOrder := others, comOrder := others }
    match r with
    | some t =>
      let y := Sys.init st.cfg t st.store
      let y := if (program st.cfg t).isEmpty then { y with status := .done } else y
      ({ st with txn := some t, sys := some y, decided := none,
                 world := t.muts.map (fun m => (m.key, t.region m.key)), stale := [], splitDone := [] },
        "ok " ++ statusOf y ++ "\t*")
    | none => (st, "bad-op")
  | ["deliver"] => withSys st fun t y =>
    if y.status ≠ .running then (st, "idle " ++ statusOf y ++ "\t*") else
    match (program st.cfg y.cur)[y.pc]? with
    | none => stepOp st t y .deliver "none"
    | some rpc =>
      if isStale st rpc then stepOp st t y .notLeader (rpcStr rpc ++ " regionerr")
      else stepOp st t y .deliver (rpcStr rpc ++ " " ++ rpcResult st.cfg t rpc y.store)
  | ["lose"] => withSys st fun t y =>
    if y.status ≠ .running then (st, "idle " ++ statusOf y ++ "\t*") else
    match (program st.cfg y.cur)[y.pc]? with
    | none => stepOp st t y .lose "none"
    | some rpc =>
      if isStale st rpc then stepOp st t y .notLeader (rpcStr rpc ++ " regionerr")
      else stepOp st t y .lose (rpcStr rpc ++ " " ++ rpcResult st.cfg t rpc y.store)
  | ["drop"] => withSys st fun t y =>
    if y.status ≠ .running then (st, "idle " ++ statusOf y ++ "\t*") else
    match (program st.cfg y.cur)[y.pc]? with
    | none => stepOp st t y .drop "none"
    | some rpc => stepOp st t y .drop (rpcStr rpc ++ " dropped")
  | ["notleader"] => withSys st fun t y =>
    if y.status ≠ .running then (st, "idle " ++ statusOf y ++ "\t*") else
    match (program st.cfg y.cur)[y.pc]? with
    | none => stepOp st t y .notLeader "none"
    | some rpc => stepOp st t y .notLeader (rpcStr rpc ++ " notleader")
  -- region topology changes, noticed by the client through the reply to its pending RPC
  | ["epoch"] => withSys st fun t y =>
    -- the region's epoch was bumped (conf change, split elsewhere): EpochNotMatch, same range
    if y.status ≠ .running then (st, "idle " ++ statusOf y ++ "\t*") else
    match (program st.cfg y.cur)[y.pc]? with
    | none => stepOp st t y .notLeader "none"
    | some rpc => stepOp st t y .notLeader (rpcStr rpc ++ " epoch")
  | ["split"] => withSys st fun t y =>
    -- the region of the pending RPC is split at the RPC's smallest key: that key and every
    -- greater key of the region now live in a new sibling region
    if y.status ≠ .running then (st, "idle " ++ statusOf y ++ "\t*") else
    match (program st.cfg y.cur)[y.pc]? with
    | none => stepOp st t y .notLeader "none"
    | some rpc =>
      let ks := rpcKeys rpc
      let rg := match ks with | k :: _ => y.cur.region k | [] => 0
      if ks.isEmpty ∨ rg = 0 ∨ rg > 3 ∨ st.splitDone.contains rg ∨ isStale st rpc then
        stepOp st t y .notLeader (rpcStr rpc ++ " epoch")
      else
        let kmin := ks.foldl min (ks.headD 0)
        let moved := (st.world.filter (fun p => p.2 = rg ∧ kmin ≤ p.1)).map (·.1)
        let world' := st.world.map (fun p => if moved.contains p.1 then (p.1, 10 + rg) else p)
        let st' := { st with world := world', stale := st.stale ++ moved, splitDone := rg :: st.splitDone }
        stepOp st' t y .notLeader (rpcStr rpc ++ " split")
  | ["merge"] => withSys st fun t y =>
    -- the region of the pending RPC is merged into its neighbour and disappears
    if y.status ≠ .running then (st, "idle " ++ statusOf y ++ "\t*") else
    match (program st.cfg y.cur)[y.pc]? with
    | none => stepOp st t y .notLeader "none"
    | some rpc =>
      let ks := rpcKeys rpc
      let rg := match ks with | k :: _ => y.cur.region k | [] => 0
      let tgt := if rg = 1 then 2 else rg - 1
      if ks.isEmpty ∨ rg = 0 ∨ rg > 3 ∨ st.splitDone.contains rg ∨ st.splitDone.contains tgt ∨ isStale st rpc then
        stepOp st t y .notLeader (rpcStr rpc ++ " epoch")
      else
        let world' := st.world.map (fun p => if p.2 = rg then (p.1, tgt) else p)
        let st' := { st with world := world', splitDone := rg :: st.splitDone }
        stepOp st' t y .drop (rpcStr rpc ++ " merge")
  | ["redeliver", i] => withSys st fun t y =>
    match natOf? i with
    | some i =>
      match y.issued[i]? with
      | none => stepOp st t y (.redeliver i) "none"
      | some rpc => stepOp st t y (.redeliver i) (rpcStr rpc ++ " " ++ rpcResult st.cfg t rpc y.store)
    | none => (st, "bad-op")
  | ["restart"] => withSys st fun t y =>
    if y.status = .running then (st, "busy " ++ statusOf y ++ "\t*") else
      -- the client groups the keys by its refreshed routing cache
      let reg : Nat → Nat := fun k => ((st.world.find? (fun p => p.1 = k)).map (·.2)).getD 0
      let others := firstSeen ((t.muts.map (fun m => reg m.key)).filter (fun r => r ≠ reg t.primary))
      let g : Grouping := ⟨st.world, others, others⟩
      stepOp { st with stale := [] } t y (.restart g) "restarted"
  | ["check", cur] => withSys st fun t y =>
    match natOf? cur with
    | some cur =>
      let r := checkTxnStatus t.start cur (y.store t.primary)
      let y' := step st.cfg t y (.check cur)
      ({ st with sys := some y' }, r.2.str ++ "\t*")
    | none => (st, "bad-op")
  | ["resolve", ks] => withSys st fun t y =>
    match (splitList ks ",").mapM natOf? with
    | some ks =>
      let own := t.ownKeys ks
      let n := (own.filter (fun k => match (y.store k).lock with | some l => l.ts = t.start | none => false)).length
      let y' := step st.cfg t y (.resolve ks)
      let out (cv : Nat) : String :=
        let e := (resolveLock t.start cv own y.store).2
        if e = .ok then s!"ok:{n}" else "err:" ++ e.str
      let res := match y.learned with
        | some (.committed cv) => if cv = 0 then "skip" else out cv
        | some .rolledBack => out 0
        | _ => "skip"
      ({ st with sys := some y' }, res ++ "\t*")
    | none => (st, "bad-op")
  -- requests of another transaction (start ts `fts`) on one key, through the real store on the other side
  | ["foreign", k, fts, ttl, v] => withSys st fun t y =>
    match natOf? k, natOf? fts, natOf? ttl, natOf? v with
    | some k, some fts, some ttl, some v =>
      let e := (prewriteKey st.cfg.perc fts ttl ⟨k, .put, v⟩ (y.store k)).2
      let y' := step st.cfg t y (.other (.prewrite ⟨k, .put, v⟩ fts ttl))
      ({ st with sys := some y' }, (if e = .ok then "ok" else "err:" ++ e.str) ++ "\t*")
    | _, _, _, _ => (st, "bad-op")
  | ["foreignabort", k, fts] => withSys st fun t y =>
    match natOf? k, natOf? fts with
    | some k, some fts => ({ st with sys := some (step st.cfg t y (.other (.rollback k fts))) }, "ok\t*")
    | _, _ => (st, "bad-op")
  | ["foreigncommit", k, fts, fcv] => withSys st fun t y =>
    match natOf? k, natOf? fts, natOf? fcv with
    | some k, some fts, some fcv =>
      let e := (commitReqKey st.cfg.perc fts fcv (y.store k)).2
      ({ st with sys := some (step st.cfg t y (.other (.commit k fts fcv))) },
        (if e = .ok then "ok" else "err:" ++ e.str) ++ "\t*")
    | _, _, _ => (st, "bad-op")
  | ["foreignresolve", k, fts, fcv] => withSys st fun t y =>
    match natOf? k, natOf? fts, natOf? fcv with
    | some k, some fts, some fcv =>
      let n := match (y.store k).lock with | some l => if l.ts = fts then 1 else 0 | none => 0
      let e := (resolveKey fts fcv (y.store k)).2
      ({ st with sys := some (step st.cfg t y (.other (.resolve k fts fcv))) },
        (if e = .ok then s!"ok:{n}" else "err:" ++ e.str) ++ "\t*")
    | _, _, _ => (st, "bad-op")
  | ["foreigncheck", k, fts, cur] => withSys st fun t y =>
    match natOf? k, natOf? fts, natOf? cur with
    | some k, some fts, some cur =>
      let r := (checkTxnStatus fts cur (y.store k)).2
      ({ st with sys := some (step st.cfg t y (.other (.check k fts cur))) }, r.str ++ "\t*")
    | _, _, _ => (st, "bad-op")
  | ["get", k, v] => withSys st fun _ y =>
    match natOf? k, natOf? v with
    | some k, some v => (st, (get st.cfg.perc (y.store k) v).str ++ "\t*")
    | _, _ => (st, "bad-op")
  | ["observe"] => withSys st fun t y =>
    let obs := t.muts.map fun m => (m, get st.cfg.perc (y.store m.key) t.cv)
    let line := " ".intercalate (obs.map fun p => s!"{p.1.key}=" ++ p.2.str)
    let (spec, dec) := observeSpec st t (y.learned == some .rolledBack) obs
    ({ st with decided := dec }, line ++ "\t" ++ spec)
  -- ---------------------------------------------------------------- C30, scheduled (in-process DB)
  | ["e.reset"] =>
    ({ st with est := RState.start 0 [[], [], [], []], stalled := false, pendC := [], blockedB := [], readers := [] }, "ok\t*")
  | "e.begin" :: i :: kind :: arg :: [] =>
    match natOf? i, (if kind == "incr" then (parseInt? arg).map Cmd.incr
                     else if kind == "setnx" then arg.toNat?.map Cmd.setnx else none) with
    | some i, some cmd =>
      match st.est.clients[i]? with
      | some cl =>
        if cl.phase ≠ .idle ∨ st.blockedB.any (fun p => p.1 = i) then (st, "bad-op")
        else if st.stalled ∧ !st.pendC.isEmpty then
          -- a new transaction waits until every commit that owns a timestamp is applied
          ({ st with blockedB := st.blockedB ++ [(i, cmd)] }, "blocked\t*")
        else
          let s0 := { st.est with clients := st.est.clients.set i ⟨[cmd], .idle⟩ }
          ({ st with est := rstep st.rcfg .embedded s0 i }, "ok\t*")
      | none => (st, "bad-op")
    | _, _ => (st, "bad-op")
  | ["e.commit", i] =>
    match natOf? i with
    | some i =>
      match st.est.clients[i]? with
      | some cl =>
        match cl.phase with
        | .idle => (st, "bad-op")
        | .inTxn cmd _ _ sn =>
          let s1 := rstep st.rcfg .embedded st.est i
          let res : String := match cmd with
            | .incr _ => if s1.okSum = st.est.okSum ∧ s1.ctrTs = st.est.ctrTs then "conflict" else s!"int:{s1.ctr}"
            | .setnx _ => if sn.isSome then "nil" else if s1.nxOk = st.est.nxOk then "conflict" else "OK"
          let isWrite := res != "conflict" && res != "nil"
          -- spec: at most one SET NX ever replies OK
          let spec := match cmd with
            | .setnx _ => if st.est.nxOk ≥ 1 then "nil|conflict|pending" else "*"
            | _ => "*"
          if st.stalled ∧ isWrite then
            ({ st with est := s1, pendC := st.pendC ++ [s!"c{i}={res}"] }, "pending\t" ++ spec)
          else ({ st with est := s1 }, res ++ "\t" ++ spec)
      | none => (st, "bad-op")
    | none => (st, "bad-op")
  | ["e.ropen", j] =>
    match natOf? j with
    | some j => if st.stalled ∨ st.readers.contains j then (st, "bad-op") else ({ st with readers := j :: st.readers }, "ok\t*")
    | none => (st, "bad-op")
  | ["e.rclose", j] =>
    match natOf? j with
    | some j => ({ st with readers := st.readers.filter (· ≠ j) }, "ok\t*")
    | none => (st, "bad-op")
  | ["e.other"] => (st, if st.stalled then "bad-op" else "ok\t*")
  | ["e.others", _] => (st, if st.stalled then "bad-op" else "ok\t*")
  | ["e.stall"] => ({ st with stalled := true }, "ok\t*")
  | ["e.unstall"] =>
    -- the stalled commits are applied in timestamp order, then the waiting transactions begin
    let est' := st.blockedB.foldl (fun s p =>
        rstep st.rcfg .embedded { s with clients := s.clients.set p.1 ⟨[p.2], .idle⟩ } p.1) st.est
    let out := " ".intercalate (st.pendC ++ st.blockedB.map (fun p => s!"b{p.1}=ok"))
    ({ st with est := est', stalled := false, pendC := [], blockedB := [] }, (if out == "" then "-" else out) ++ "\t*")
  | ["e.get"] => if st.stalled then (st, "bad-op") else (st, s!"int:{st.est.ctr}\tint:{st.est.init0 + st.est.okSum}")
  | ["e.getnx"] =>
    if st.stalled then (st, "bad-op") else (st, (match st.est.nx with | some v => s!"bulk:{v}" | none => "nil") ++ "\t*")
  -- ---------------------------------------------------------------- C30
  | _ =>
    match redisStep st.rcfg st.red toks with
    | some (r, out) => ({ st with red := r }, out)
    | none => (st, "bad-op")

def main : IO Unit := Driver.loop ({} : St) step'

/-
Line-protocol driver for the SST engine (C35).  Reply format: `<model>\t<spec>`.
The spec column is computed from the entry list the table was built from (sorted list
semantics), never from the block structure.

ops:  build <blockSize> <bloom 0|1> <bitsPerKey> <u:ver:val,...>   (entries in build order)
      blocks                      base key of every block
      get <u> <ver>               table.Search
      seek asc|desc <u> <ver> <n> Seek + up to n Next
      scan asc|desc               Rewind + Next…
      it new asc|desc / it rewind / it seek <u> <ver> / it next / it drain
                                  one long-lived table iterator; reply = current entry (`-` = invalid),
                                  drain = Next until invalid, reply = entries visited
      reopen                      close the file handle, drop caches, open the file again
      buildnc …                   like build, block cache disabled and table on level 2
      corruptlive <blk> <pos> <bit>  like corrupt but the table stays open (only after buildnc)
      corrupt <blk> <byte|e<k>> <bit>  (e<k> = k bytes before the block's last byte) close, flip one bit of the table file inside data block blk, reopen;
                                  from then on every load of that block is an error (spec: a read
                                  answers an error/none or original data, never anything else)
-/
import Driver.Lib
import NoKVModel.Sst.Model

open NoKV NoKV.Index NoKV.Sst Driver

structure St where
  c : SstCfg := SstCfg.good
  t : Table := { blocks := [], bloomOn := false, nBits := 64, k := 1, filter := [] }
  ents : List SEntry := []
  built : Bool := false
  uncached : Bool := false   -- built with the block cache disabled, on level 2
  bad : Option Nat := none   -- index of the block whose bytes were corrupted in the file
  badPanics : Bool := false
  cur : Option (Bool × Cur) := none   -- one long-lived iterator: (ascending?, model state)
  specRem : List SEntry := []         -- the specification cursor: entries from the current one on
  curPositioned : Bool := false       -- the iterator has received a Rewind or Seek  -- loading that block panics (flipped checksum-length field past the as-is guard)

def setCfg (st : St) (kv : String) : Option St :=
  match kv.splitOn "=" with
  | [k, v] =>
    match k with
    | "sst.splitOp" => do let o ← CmpOp.ofString? v; pure { st with c := { st.c with splitOp := o } }
    | "sst.seekFallsThrough" => do let b ← boolOfString? v; pure { st with c := { st.c with seekFallsThrough := b } }
    | "sst.tblSeekOp" => do let o ← CmpOp.ofString? v; pure { st with c := { st.c with tblSeekOp := o } }
    | "sst.blkFwdOp" => do let o ← CmpOp.ofString? v; pure { st with c := { st.c with blkFwdOp := o } }
    | "sst.blkRevOp" => do let o ← CmpOp.ofString? v; pure { st with c := { st.c with blkRevOp := o } }
    | "sst.searchVsOp" => do let o ← CmpOp.ofString? v; pure { st with c := { st.c with searchVsOp := o } }
    | "sst.seekReloads" => do let b ← boolOfString? v; pure { st with c := { st.c with seekReloads := b } }
    | "sst.nextUnload" =>
        if v == "data" then some { st with c := { st.c with nextUnloadsBoth := false } }
        else if v == "both" then some { st with c := { st.c with nextUnloadsBoth := true } }
        else none
    | "sst.verifyEveryLoad" => do let b ← boolOfString? v; pure { st with c := { st.c with verifyEveryLoad := b } }
    | "sst.chkLenGuard" =>
        if v == "readPos" then some { st with c := { st.c with chkLenGuardReadPos := true } }
        else if v == "len" then some { st with c := { st.c with chkLenGuardReadPos := false } }
        else none
    | "sst.verifyBeforeCache" => do let b ← boolOfString? v; pure { st with c := { st.c with verifyBeforeCache := b } }
    | "sst.bloomSameProjection" => do let b ← boolOfString? v; pure { st with c := { st.c with bloomSameProjection := b } }
    | _ => none
  | _ => none

def keyStr (k : Bytes) : String :=
  if k.length > 64 then s!"#{k.length}:{Bytes.toHex (k.drop (k.length - 16))}" else k.toHex
def valStr (v : Bytes) : String :=
  if v.length > 32 then s!"#{v.length}:{Bytes.toHex (v.take 4)}" else v.toHex
def entStr (e : SEntry) : String := keyStr e.1 ++ "=" ++ valStr e.2
def entsStr (l : List SEntry) : String := if l.isEmpty then "-" else ",".intercalate (l.map entStr)
def optStr : Option Bytes → String
  | none => "none"
  | some v => valStr v

/-- any hash will do for the model column (no false negatives for every hash: C35_bloom_no_fn) -/
def modelHash (b : Bytes) : Nat := b.foldl (fun h x => (h * 31 + x + 7) % u32) b.length

def parseEnt? (s : String) : Option SEntry :=
  match s.splitOn ":" with
  | [u, v, x] => do
    let u ← bytesOf? u; let v ← natOf? v
    let x ← (if x.startsWith "r" then (do let n ← natOf? (x.drop 1).toString; pure (List.replicate n 120)) else bytesOf? x)
    pure (mkKey IdxCfg.good u v, x)
  | _ => none

/-- index of the block the table iterator starts in: (first block whose base key satisfies
`tblSeekOp`) - 1; `none` = there is no block before the target (idx == 0) -/
def startBlock (c : SstCfg) (key : Bytes) (blocks : List Block) : Option Nat :=
  let idx := (blocks.takeWhile (fun b => !(c.tblSeekOp.eval (klt (baseKey b) key) (keq (baseKey b) key)))).length
  if idx = 0 then none else some (idx - 1)

/-- reads when block `bad` fails its checksum: every load of it is an error, which ends the
iteration (`it.err`), every other block is served as built -/
def seekFwdBad (c : SstCfg) (key : Bytes) (blocks : List Block) (bad : Nat) : List SEntry :=
  let j := (startBlock c key blocks).getD 0
  if j < bad then seekFwd c key (blocks.take bad)
  else if j = bad then []
  else seekFwd c key blocks

def seekRevBad (c : SstCfg) (key : Bytes) (blocks : List Block) (bad : Nat) : List SEntry :=
  match startBlock c key blocks with
  | none => []
  | some j =>
    if j < bad then seekRev c key blocks
    else if j = bad then []
    else seekRev c key (blocks.drop (bad + 1))

/-- what a read that would reach the bad block after `avail` answers: a load error ends the
iteration after the available entries; a panicking load aborts the whole call when the iteration
gets that far (`Next` runs once more after the n-th entry) -/
def badRead (panics reachable : Bool) (avail : List SEntry) (n : Option Nat) : String :=
  let crosses := match n with
    | none => true
    | some n => decide (avail.length ≤ n)
  if panics && reachable && crosses then "panic"
  else entsStr (match n with | none => avail | some n => avail.take n)

/-- position of the flipped byte inside a block of `len` bytes: `e<k>` = k bytes before the last one -/
def flipPos? (tok : String) (len : Nat) : Option Nat :=
  if len = 0 then none
  else if tok.startsWith "e" then (natOf? (tok.drop 1).toString).map (fun k => len - 1 - k % len)
  else (natOf? tok).map (fun k => k % len)

/-- all prefixes of a result, as spec alternatives ("an error may cut the iteration short, but
whatever is returned is original data") -/
def prefixAlts (l : List SEntry) : String :=
  "|".intercalate ((List.range (l.length + 1)).map (fun n => entsStr (l.take n)))

def doBuild (st : St) (op bs bloom bpk ents : String) : St × String :=
  if op != "build" && op != "buildnc" then (st, "bad-op") else
  match natOf? bs, natOf? bloom, natOf? bpk, (ents.splitOn ",").mapM parseEnt? with
  | some bs, some bloom, some bpk, some es =>
    let k := min (max (bpk * 69 / 100) 1) 30
    let t := buildTable st.c modelHash bs (bloom == 1) bpk k es
    ({ st with t := t, ents := es, built := true, bad := none, badPanics := false, uncached := (op == "buildnc"), cur := none, specRem := [] },
      s!"ok:{es.length}\tok:{es.length}")
  | _, _, _, _ => (st, "bad-op")

def doCorrupt (st : St) (op b pos bit : String) : St × String :=
  if op != "corrupt" && op != "corruptlive" then (st, "bad-op") else
  -- corruptlive: the bit is flipped while the table stays open; only on tables whose reads all
  -- miss the cache (buildnc), where the as-is code verifies every load
  if op == "corruptlive" && !st.uncached then (st, "bad-op") else
  match natOf? b, natOf? bit with
  | some b, some bit =>
    let n := st.t.blocks.length
    let bi := b % (max n 1)
    let len := blockBytes (st.t.blocks.getD bi [])
    match flipPos? pos len with
    | none => (st, "bad-op")
    | some off =>
      let panics := decide (off ≥ len - 4) &&
        decide (chkLenStep st.c len (flippedChkLen (off - (len - 4)) (bit % 8)) = .panic)
      -- reopening reads the last block (max key): a panicking last block kills the open
      if op == "corrupt" && panics && bi + 1 == n then ({ st with built := false }, "panic\tok")
      else ({ st with bad := some bi, badPanics := panics }, "ok\tok")
  | _, _ => (st, "bad-op")

def headStr (l : List SEntry) : String := match l with | [] => "-" | e :: _ => entStr e

/-- ops on the long-lived iterator; reply = the current entry after the call (`-` = not valid),
for `drain` the entries visited -/
def doCursor (st : St) (args : List String) : St × String :=
  if st.bad.isSome then (st, "bad-op") else
  match args with
  | ["new", dir] => ({ st with cur := some (dir == "asc", {}), specRem := [], curPositioned := false }, "ok\tok")
  | _ =>
    match st.cur with
    | none => (st, "no-cursor\tno-cursor")
    | some (asc, cur) =>
      let apply (op : COp) : St × String :=
        let cur' := curStep st.c st.t.blocks asc cur op
        let sp := specStep st.ents asc st.specRem op
        ({ st with cur := some (asc, cur'), specRem := sp, curPositioned := true },
          (if cur'.dead then "panic" else headStr cur'.rem) ++ "\t" ++ headStr sp)
      match args with
      | ["rewind"] => apply .rewind
      | ["next"] => if !st.curPositioned then (st, "unpositioned\tunpositioned") else if cur.rem.isEmpty then (st, "-\t" ++ headStr st.specRem) else apply .next
      | ["seek", u, v] =>
        match bytesOf? u, natOf? v with
        | some u, some v => apply (.seek (mkKey IdxCfg.good u v))
        | _, _ => (st, "bad-op")
      | ["drain"] =>
        if !st.curPositioned then (st, "unpositioned\tunpositioned") else
        -- Next until the iterator is no longer valid; reply = the entries visited
        let visited := cur.rem.tail
        let cur' := (List.replicate cur.rem.length COp.next).foldl (curStep st.c st.t.blocks asc) cur
        ({ st with cur := some (asc, cur'), specRem := [] },
          entsStr visited ++ "\t" ++ entsStr st.specRem.tail)
      | _ => (st, "bad-op")

def step (st : St) (toks : List String) : St × String :=
  if !st.built && toks.head? != some "cfg" && toks.head? != some "build" && toks.head? != some "buildnc" then (st, "no-table\tno-table") else
  match toks with
  | "cfg" :: kvs =>
    match kvs.foldlM setCfg st with
    | some st' => (st', "ok")
    | none => (st, "bad-cfg")
  | ["build", bs, bloom, bpk, ents] => doBuild st "build" bs bloom bpk ents
  | ["buildnc", bs, bloom, bpk, ents] => doBuild st "buildnc" bs bloom bpk ents
  | ["blocks"] =>
    (st, ",".intercalate (st.t.blocks.map (fun b => keyStr (baseKey b) ++ ":" ++ toString (blockBytes b))) ++ "\t*")
  | "it" :: args => doCursor st args
  | ["reopen"] =>
    if st.badPanics && st.bad == some (st.t.blocks.length - 1) then ({ st with built := false, cur := none }, "panic\tok")
    else ({ st with cur := none, specRem := [] }, "ok\tok")
  | ["corrupt", b, pos, bit] => doCorrupt st "corrupt" b pos bit
  | ["corruptlive", b, pos, bit] => doCorrupt st "corruptlive" b pos bit
  | ["get", u, v] =>
    match bytesOf? u, natOf? v with
    | some u, some v =>
      let k := mkKey IdxCfg.good u v
      let m := match st.bad with
        | none => optStr (search st.c modelHash st.t k)
        | some bad =>
          match seekFwdBad st.c k st.t.blocks bad with
          | [] => if st.badPanics && decide ((startBlock st.c k st.t.blocks).getD 0 ≤ bad) then "panic" else "none"
          | e :: _ => if sameKey k e.1 && st.c.searchVsOp.nat 0 (verOf e.1) then valStr e.2 else "none"
      -- spec: first entry at or after the key; answered when it has the same user key
      let r := match st.ents.dropWhile (fun e => klt e.1 k) with
        | [] => none
        | e :: _ => if sameKey k e.1 then some e.2 else none
      (st, m ++ "\t" ++ (if st.bad.isSome then "none|" ++ optStr r else optStr r))
    | _, _ => (st, "bad-op")
  | ["seek", dir, u, v, n] =>
    match bytesOf? u, natOf? v, natOf? n with
    | some u, some v, some n =>
      let k := mkKey IdxCfg.good u v
      let asc := dir == "asc"
      let ms := match st.bad with
        | none => entsStr ((if asc then seekFwd st.c k st.t.blocks else seekRev st.c k st.t.blocks).take n)
        | some bad =>
          if asc then
            badRead st.badPanics (decide ((startBlock st.c k st.t.blocks).getD 0 ≤ bad)) (seekFwdBad st.c k st.t.blocks bad) (some n)
          else
            match startBlock st.c k st.t.blocks with
            | none => "-"
            | some j => badRead st.badPanics (decide (j ≥ bad)) (seekRevBad st.c k st.t.blocks bad) (some n)
      let r := if asc then st.ents.dropWhile (fun e => klt e.1 k)
               else (st.ents.takeWhile (fun e => !klt k e.1)).reverse
      (st, ms ++ "\t" ++ (if st.bad.isSome then prefixAlts (r.take n) else entsStr (r.take n)))
    | _, _, _ => (st, "bad-op")
  | ["scan", dir] =>
    let asc := dir == "asc"
    match st.bad with
    | none => (st, entsStr (scan st.t asc) ++ "\t" ++ entsStr (if asc then st.ents else st.ents.reverse))
    | some bad =>
      let m := if asc then (st.t.blocks.take bad).flatten else ((st.t.blocks.drop (bad + 1)).flatten).reverse
      (st, badRead st.badPanics true m none ++ "\t" ++ prefixAlts (if asc then st.ents else st.ents.reverse))
  | _ => (st, "bad-op")

def main : IO Unit := Driver.loop ({} : St) step

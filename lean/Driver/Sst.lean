-- stub: replaced by the sst engine driver
def main : IO Unit := pure ()

-- stub: replaced by the raftwal engine driver
def main : IO Unit := pure ()

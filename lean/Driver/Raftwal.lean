/-
Line-protocol driver for the raft-WAL engine (C21: WAL-backed raft storage under process
crashes; C36: WAL segment cleanup).  Reply format: `<model>\t<spec>`.
-/
import Driver.Lib
import NoKVModel.Base.Cfg
import NoKVModel.Raftwal.Store
import NoKVModel.Raftwal.Segments

open NoKV NoKV.Raftwal Driver

structure DSt where
  cfg : Cfg := Cfg.good
  s : St := {}
  dead : Bool := false
  -- specification side (C21): the records of the calls that returned ok, the truncation
  -- point the group asked for, and whether the history is still one raft could produce
  hist : List Rec := []
  trunc : Nat := 0
  valid : Bool := true
  /-- the active segment was padded by `fill`: the next record does not fit, `AppendRecords`
  rotates (flush + fsync + new segment) before it encodes it -/
  full : Bool := false
  -- C36
  scfg : Seg.SCfg := Seg.SCfg.good
  ss : Seg.S := {}
  puts : List (Nat × Nat) := []      -- spec: every acknowledged put (key, seq)
  rlast : List (Nat × Nat) := [(1, 0), (2, 0)]   -- spec: appended entries per group

def setCfg (st : DSt) (kv : String) : Option DSt :=
  match kv.splitOn "=" with
  | [k, v] =>
    match k with
    | "raftwal.flushOnAppend" => do let b ← boolOfString? v; pure { st with cfg := { st.cfg with flushOnAppend := b } }
    | "seg.guardUntruncated" => do let b ← boolOfString? v; pure { st with scfg := { st.scfg with guardUntruncated := b } }
    | "seg.wdChecksFlushed" => do let b ← boolOfString? v; pure { st with scfg := { st.scfg with wdChecksFlushed := b } }
    | "seg.spanTrim" => if v == "prefixKept" then some st else none
    | "seg.flushRetries" => do let b ← boolOfString? v; pure { st with scfg := { st.scfg with flushRetries := b } }
    | "seg.replaySeedsTrunc" => do let b ← boolOfString? v; pure { st with scfg := { st.scfg with replaySeedsTrunc := b } }
    -- operator facts the model is not parameterised by: only the modelled value is accepted
    | "seg.canRemoveOps" => if v == "ge,ge" then some st else none
    | "seg.wdCandidateOp" => if v == "lt" then some st else none
    | "seg.recoveryRule" => if v == "le:true" then some st else none
    | "seg.wdRetainShape" => if v == "perPointerMin" then some st else none
    | "seg.flushRemovePos" => if v == "afterInstall" then some st else none
    | "seg.flushEditOrder" => if v == "EditAddFile,EditLogPointer" then some st else none
    | "raftwal.sendAfterPersist" => do let b ← boolOfString? v; pure { st with cfg := { st.cfg with sendAfterPersist := b } }
    -- facts the model is not parameterised by: only the modelled value is accepted
    | "raftwal.replayLengthBound" => if v == "none" then some st else none
    | "raftwal.bootstrapChecksHardState" => if v == "true" then some st else none
    | "raftwal.hsAfterEntries" => do let b ← boolOfString? v; pure { st with cfg := { st.cfg with hsAfterEntries := b } }
    | "raftwal.syncFlushes" => do let b ← boolOfString? v; pure { st with cfg := { st.cfg with syncFlushes := b } }
    | _ => none
  | _ => none

def parseItems? (s : String) : Option (List Item) :=
  if s == "-" then some [] else
  (s.splitOn ",").mapM fun p =>
    match p.splitOn ":" with
    | [a, b] => do let a ← natOf? a; let b ← natOf? b; pure (a, b)
    | _ => none

/-- entries from `hi` down to `lo` (inclusive), `idx:term:data;` each -/
def descLog (get : Nat → Option Item) (lo : Nat) : Nat → String
  | 0 => ""
  | hi + 1 =>
    if hi + 1 < lo then "" else
    (match get (hi + 1) with
     | some it => s!"{hi + 1}:{it.1}:{it.2};"
     | none => s!"{hi + 1}:?;") ++ descLog get lo hi

def stateStr (m : Mem) : String :=
  s!"hs={m.hs.term}/{m.hs.vote}/{m.hs.commit} snap={m.snapIdx}/{m.snapTerm} last={m.lastIndex} log=" ++
    descLog m.entry? m.firstIndex m.lastIndex ++ s!" first={m.firstIndex}"

/-- abstract last index of a history -/
def specLast : List Rec → Nat → Nat
  | [], acc => acc
  | .ents f items :: rs, acc => specLast rs (if items = [] then acc else f + items.length - 1)
  | .snap i _ :: rs, acc => specLast rs (if i = 0 then acc else i)
  | .hs _ :: rs, acc => specLast rs acc
  | .other :: rs, acc => specLast rs acc

def specSnap : List Rec → Nat × Nat → Nat × Nat
  | [], acc => acc
  | .snap i t :: rs, acc => specSnap rs (if i = 0 then acc else (i, t))
  | .ents _ _ :: rs, acc => specSnap rs acc
  | .hs _ :: rs, acc => specSnap rs acc
  | .other :: rs, acc => specSnap rs acc

def specStateStr (st : DSt) : String :=
  if !st.valid then "*" else
  let h := ((hsOf st.hist).getLast?).getD {}
  let sn := specSnap st.hist (0, 0)
  let last := specLast st.hist 0
  s!"hs={h.term}/{h.vote}/{h.commit} snap={sn.1}/{sn.2} last={last} log=" ++
    descLog (specLog st.hist) (st.trunc + 1) last ++ "*"

/-- is the call one a raft node could issue after the history so far?  (computed from the
abstract history only: last index, truncation point, last snapshot) -/
def callValid (st : DSt) : Call → Bool
  | .hs _ => true
  | .app f items => items.isEmpty || (decide (st.trunc < f) && decide (f ≤ specLast st.hist 0 + 1))
  | .snap i _ => i == 0 || decide ((specSnap st.hist (0, 0)).1 < i)
  | .compact _ _ => true

def recOfCall : Call → Option Rec
  | .hs h => if h.term = 0 ∧ h.vote = 0 ∧ h.commit = 0 then none else some (.hs h)
  | .app f items => if items = [] then none else some (.ents f items)
  | .snap i t => if i = 0 then none else some (.snap i t)
  | .compact _ _ => none

/-- specification side of a call: a valid call must succeed and is then part of the history -/
def specCall (st : DSt) (cl : Call) : DSt × String :=
  let v := st.valid && callValid st cl
  if !v then ({ st with valid := false }, "*") else
  match cl with
  | .compact a r =>
    let target := a - r
    let tr := if r ≠ 0 ∧ a ≠ 0 ∧ r < a ∧ st.trunc < target ∧ target ≤ specLast st.hist 0 then target else st.trunc
    ({ st with trunc := tr }, "*")
  | _ =>
    let hist := match recOfCall cl with
      | some r => st.hist ++ [r]
      | none => st.hist
    let tr := match cl with
      | .snap i _ => if i ≠ 0 then i else st.trunc
      | _ => st.trunc
    ({ st with hist := hist, trunc := tr }, "ok")

/-- `big`: the record is larger than a whole segment (`AppendRecords` legally writes it alone into
a fresh segment: `ensureCapacity` always rotates for it, and the segment is over-full afterwards) -/
def runCallG (big : Bool) (st : DSt) (cl : Call) : DSt × String :=
  let (st1, spec) := specCall st cl
  if st.dead then (st1, "dead\t" ++ spec) else
  let rot := (st.full || big) && (recOfCall cl).isSome
  let s0 := if rot then step st.cfg st.s .rotate else st.s
  let st1 := if rot then { st1 with full := false } else st1
  let s' := doCall st.cfg s0 cl
  let out := if s'.ok then "ok" else (match cl with
    | .app _ _ => "panic"
    | _ => "err")
  ({ st1 with s := s', full := if big && (recOfCall cl).isSome then true else st1.full }, out ++ "\t" ++ spec)

def runCall (st : DSt) (cl : Call) : DSt × String := runCallG false st cl

def bg (st : DSt) (e : Ev) : DSt × String :=
  if st.dead then (st, "dead\t*") else ({ st with s := step st.cfg st.s e }, "ok\t*")

def doCrash (st : DSt) (s0 : St) : DSt × String :=
  let spec := if st.valid then "ok" else "*"
  if st.dead then (st, "dead\t" ++ spec) else
  if !validPtr s0.segsD s0.ptr then ({ st with dead := true }, "err:ptr\t" ++ spec)
  else if (replay s0.durable).isNone then ({ st with dead := true }, "err:replay\t" ++ spec)
  else ({ st with s := crash s0, full := st.full && s0.buf.isEmpty }, "ok\t" ++ spec)

def segsStr (s : Seg.S) : String :=
  let ids := Seg.segIds s
  if ids.isEmpty then "segs=-" else "segs=" ++ ",".intercalate (ids.map toString)

def specGet (puts : List (Nat × Nat)) (k : Nat) : String :=
  match ((puts.filter (·.1 == k)).map (·.2)).getLast? with
  | some v => s!"v{v}"
  | none => "none"

def stepSeg (st : DSt) (toks : List String) : DSt × String :=
  match toks with
  | ["s.put", k] =>
    match natOf? k with
    | some k =>
      let s' := Seg.put st.ss k
      ({ st with ss := s', puts := st.puts ++ [(k, s'.seq)] }, "ok\tok")
    | none => (st, "bad-op")
  | ["s.get", k] =>
    match natOf? k with
    | some k =>
      let r := match Seg.get st.ss k with
        | some v => s!"v{v}"
        | none => "none"
      (st, r ++ "\t" ++ specGet st.puts k)
    | none => (st, "bad-op")
  | ["s.rapp", g, n] =>
    match natOf? g, natOf? n with
    | some g, some n =>
      let (s', out) := Seg.rapp st.ss g n
      let rl := if out == "ok" then st.rlast.map (fun p => if p.1 == g then (p.1, p.2 + n) else p) else st.rlast
      ({ st with ss := s', rlast := rl }, out ++ "\tok")
    | _, _ => (st, "bad-op")
  | ["s.rover", g, back, n] =>
    -- a new leader rewrites the last `back` entries (and may extend): append starting at last+1-back
    match natOf? g, natOf? back, natOf? n with
    | some g, some back, some n =>
      let last := ((st.ss.grps.find? (·.id == g)).map (·.last)).getD 0
      let live := ((st.ss.grps.find? (·.id == g)).map (·.openOK)).getD false
      if !live then (st, "nogroup\t*")
      else if back > last then (st, "skip\t*")
      else
        let (s', out) := Seg.rover st.ss g (last + 1 - back) n
        let rl := if out == "ok" && n ≠ 0 then st.rlast.map (fun p => if p.1 == g then (p.1, last + 1 - back + n - 1) else p) else st.rlast
        ({ st with ss := s', rlast := rl }, out ++ "\t*")
    | _, _, _ => (st, "bad-op")
  | ["s.rhs", g] =>
    match natOf? g with
    | some g => let (s', out) := Seg.rhs st.ss g; ({ st with ss := s' }, out ++ "\tok")
    | none => (st, "bad-op")
  | ["s.rtrunc", g, k] =>
    match natOf? g, natOf? k with
    | some g, some k => let (s', out) := Seg.rtrunc st.ss g k; ({ st with ss := s' }, out ++ "\t*")
    | _, _ => (st, "bad-op")
  | ["s.rstate", g] =>
    match natOf? g with
    | some g =>
      let want := ((st.rlast.find? (·.1 == g)).map (·.2)).getD 0
      let out := match st.ss.grps.find? (·.id == g) with
        | some gr => if gr.openOK then s!"last={gr.last} first={gr.base + 1}" else "openfailed"
        | none => "nogroup"
      (st, out ++ "\t" ++ s!"last={want} *")
    | none => (st, "bad-op")
  | ["s.rotate"] =>
    let s' := Seg.rotate st.scfg st.ss
    ({ st with ss := s', puts := st.puts ++ [(0, s'.seq - 1), (0, s'.seq)] }, segsStr s' ++ "\t*")
  | ["s.gate", b] =>
    let s' := Seg.gate st.scfg st.ss (b == "closed")
    ({ st with ss := s' }, segsStr s' ++ "\t*")
  | ["s.watchdog"] =>
    let s' := Seg.watchdog st.scfg st.ss
    ({ st with ss := s' }, segsStr s' ++ "\t*")
  | ["s.flushfail"] =>
    let s' := Seg.flushFail st.scfg st.ss
    ({ st with ss := s', puts := st.puts ++ [(0, s'.seq - 1), (0, s'.seq)] }, segsStr s' ++ "\t*")
  | ["s.segs"] => (st, segsStr st.ss ++ "\t*")
  | ["s.crash"] =>
    let s' := Seg.crash st.scfg st.ss
    ({ st with ss := s', puts := st.puts ++ [(0, s'.seq)] }, "ok " ++ segsStr s' ++ "\tok*")
  | _ => (st, "bad-op")

def step' (st : DSt) (toks : List String) : DSt × String :=
  match toks with
  | "cfg" :: kvs =>
    match kvs.foldlM setCfg st with
    | some st' => (st', "ok")
    | none => (st, "bad-cfg")
  | ["hs", t, v, c] =>
    match natOf? t, natOf? v, natOf? c with
    | some t, some v, some c => runCall st (.hs ⟨t, v, c⟩)
    | _, _, _ => (st, "bad-op")
  | ["app", f, items] =>
    match natOf? f, parseItems? items with
    | some f, some items => runCall st (.app f items)
    | _, _ => (st, "bad-op")
  | ["snap", i, t] =>
    match natOf? i, natOf? t with
    | some i, some t => runCall st (.snap i t)
    | _, _ => (st, "bad-op")
  | ["bigapp", f, items] =>
    match natOf? f, parseItems? items with
    | some f, some items => runCallG true st (.app f items)
    | _, _ => (st, "bad-op")
  | ["bigsnap", i, t] =>
    match natOf? i, natOf? t with
    | some i, some t => runCallG true st (.snap i t)
    | _, _ => (st, "bad-op")
  | ["compact", a, r] =>
    match natOf? a, natOf? r with
    | some a, some r => runCall st (.compact a r)
    | _, _ => (st, "bad-op")
  | ["other"] =>
    if st.full && !st.dead then
      ({ st with s := step st.cfg (step st.cfg st.s .rotate) .other, full := false }, "ok\t*")
    else bg st .other
  | ["fill"] =>
    if st.dead then (st, "dead\t*")
    else if st.full then (st, "full\t*")
    else ({ st with s := step st.cfg st.s .other, full := true }, "ok\t*")
  | ["sync"] => bg st .flush
  | ["rotate"] => let r := bg st .rotate; ({ r.1 with full := false }, r.2)
  | ["send"] => bg st .send
  -- peer level (a live peer.Peer over a failing WAL): raft's own answers are not modelled; the
  -- outputs are verdicts.  A healthy step succeeds; a step whose WAL write fails returns the
  -- error, and after the crash that follows every vote grant / append ack the peer sent must be
  -- covered by the recovered hard state and log — which holds iff nothing is sent on the error path.
  | ["p.bootcrash"] =>
    -- the storage fails in the middle of the bootstrap Ready, then crash + restart: with the hard
    -- state persisted first the recovered commit index lies beyond the empty log and
    -- raft.NewRawNode panics; with the entries first the peer restarts
    (st, (if st.cfg.hsAfterEntries then "crash=ok covered step=err" else "crash=panic step=err") ++ "\tcrash=ok*")
  | ["p.early", _] => (st, "ok\tok")
  | ["p.vote", _] => (st, "ok\tok")
  | ["p.app", _] => (st, "ok\tok")
  | ["p.crash"] => (st, "crash=ok covered\tcrash=ok covered*")
  | ["p.votefail", _] =>
    (st, (if st.cfg.sendAfterPersist then "crash=ok covered step=err" else "crash=ok uncovered step=err") ++ "\tcrash=ok covered*")
  | ["p.appfail", _] =>
    (st, (if st.cfg.sendAfterPersist then "crash=ok covered step=err" else "crash=ok uncovered step=err") ++ "\tcrash=ok covered*")
  | ["crash"] => doCrash st st.s
  | ["close"] => doCrash st (flush st.s)
  | ["state"] =>
    if st.dead then (st, "dead\t" ++ specStateStr st) else (st, stateStr st.s.mem ++ "\t" ++ specStateStr st)
  | t :: _ => if t.startsWith "s." then stepSeg st toks else (st, "bad-op")
  | _ => (st, "bad-op")

def main : IO Unit := Driver.loop ({} : DSt) step'

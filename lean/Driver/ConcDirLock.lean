/-
Driver part for C33 (directory lock).  Ops:

  dl.new               fresh directory
  dl.spawn <tid>       a contender that will call AcquireDirLock and, if it succeeds, Release — twice
  dl.spawnf <tid>      the same, on a file system whose first unlink of LOCK fails (transient error)
  dl.step <tid>        run <tid> up to its next yield point (one system call)
                       → <ok|multi>:<opened|locked|held|failed|rel1|rel2|done> | ok:finished
                       after `done` the contender calls Release a second time:
                       → noop (the handle was cleared) | rerel1, rerel2, redone (the sequence runs again)
  dl.stat              → exists | absent   (the LOCK file)
  dl.dbclose           a real DB is opened on a fresh directory, written to and closed; on every file
                       operation of the closing DB a second contender tries AcquireDirLock
                       → ok (never admitted before Close returned, admitted afterwards) | intruder
-/
import Driver.Lib
import NoKVModel.Base.Cfg
import NoKVModel.Conc.DirLock

namespace ConcDirLock
open NoKV NoKV.Conc NoKV.Conc.DirLock Driver

structure DSt where
  c : DLCfg := DLCfg.good
  s : St := initSt
  tids : List Nat := []
  retired : List Nat := []      -- contenders whose second Release has returned

def setCfg (d : DSt) (kv : String) : Option DSt :=
  match kv.splitOn "=" with
  | [k, v] =>
    match k with
    | "dirlock.releaseOrder" =>
      match v with
      | "unlock-close-remove" => some { d with c := { d.c with releaseOrder := .unlockCloseRemove } }
      | "remove-unlock-close" => some { d with c := { d.c with releaseOrder := .removeUnlockClose } }
      | "unlock-close" => some { d with c := { d.c with releaseOrder := .unlockClose } }
      | _ => none
    | "dirlock.acquireRechecks" => do let b ← boolOfString? v; pure { d with c := { d.c with acquireRechecks := b } }
    | "dirlock.releaseClearsOnError" => do let b ← boolOfString? v; pure { d with c := { d.c with releaseClearsOnError := b } }
    | "dirlock.closeReleasesLast" => do let b ← boolOfString? v; pure { d with c := { d.c with closeReleasesLast := b } }
    | "dirlock.acquireShape" | "dirlock.dbUsesLock" => if v == "true" then some d else none
    | _ => if k.startsWith "dirlock." then none else some d
  | _ => none

def pcName : PC → String
  | .open_ => "spawned"
  | .flock => "opened"
  | .recheck => "locked"
  | .held => "held"
  | .rel k => s!"rel{k + 1}"
  | .failed => "failed"
  | .done => "done"
  | .rerel k => s!"rerel{k + 1}"
  | .closing k => s!"closing{k}"
  | .closingAfter k => s!"closingafter{k}"

/-- specification side: how many contenders hold the directory -/
def holders (d : DSt) : Nat :=
  (d.tids.filter fun t => match d.s.thr t with
    | some th => th.pc == PC.held
    | none => false).length

/-- a whole AcquireDirLock by a fresh contender: does it succeed? -/
def probeAcquire (c : DLCfg) (s : St) (tid : Nat) : Bool :=
  match (Conc.run (sys c) s [.spawn tid, .run tid, .run tid, .run tid]).thr tid with
  | some th => th.pc == PC.held
  | none => false

/-- the DB is contender 0; after each step of its Close, while it still uses the directory (storage
not completely closed), a fresh contender tries to acquire it -/
def dbCloseIntruder (c : DLCfg) : Nat → St → Nat → Bool
  | 0, _, _ => false
  | fuel + 1, s, tid =>
    match DirLock.step c s (.run 0) with
    | none => false
    | some s' =>
      match s'.thr 0 with
      | some th =>
        if th.pc == PC.done then false
        else if usingPC th.pc && probeAcquire c s' tid then true
        else dbCloseIntruder c fuel s' (tid + 1)
      | none => false

def step (d : DSt) (toks : List String) : DSt × String :=
  match toks with
  | ["dl.new"] => ({ d with s := initSt, tids := [], retired := [] }, "ok\t*")
  | ["dl.spawnf", t] =>
    match natOf? t with
    | some tid =>
      match DirLock.step d.c d.s (.spawnF tid) with
      | some s' => ({ d with s := s', tids := d.tids ++ [tid] }, "ok\t*")
      | none => (d, "bad-op")
    | none => (d, "bad-op")
  | ["dl.spawn", t] =>
    match natOf? t with
    | some tid =>
      match DirLock.step d.c d.s (.spawn tid) with
      | some s' => ({ d with s := s', tids := d.tids ++ [tid] }, "ok\t*")
      | none => (d, "bad-op")
    | none => (d, "bad-op")
  | ["dl.step", t] =>
    match natOf? t with
    | some tid =>
      if d.retired.contains tid then (d, "ok:finished\tok:*") else
      let before := (d.s.thr tid).map (·.pc)
      let noHandle := match d.s.thr tid with
        | some th => th.pc == PC.done && !th.handle
        | none => false
      match DirLock.step d.c d.s (.run tid) with
      | some s' =>
        let d' := { d with s := s' }
        -- the second Release: a no-op if the handle was cleared, else the whole sequence again
        let (d', nm) :=
          if noHandle then ({ d' with retired := tid :: d'.retired }, "noop")
          else match s'.thr tid with
            | some th =>
              let wasRerel : Bool := match before with
                | some (PC.rerel _) => true
                | _ => false
              if th.pc == PC.done && wasRerel then
                ({ d' with retired := tid :: d'.retired }, "redone")
              else (d', pcName th.pc)
            | none => (d', "?")
        (d', (if holders d' ≥ 2 then "multi" else "ok") ++ ":" ++ nm ++ "\tok:*")
      | none => (d, "ok:finished\tok:*")
    | none => (d, "bad-op")
  | ["dl.dbclose"] => (d, (if dbCloseIntruder d.c 16 (Conc.run (sys d.c) initSt [.spawnDB 0, .run 0, .run 0, .run 0]) 1 then "intruder" else "ok") ++ "\tok")
  | ["dl.stat"] => (d, (if d.s.name.isSome then "exists" else "absent") ++ "\t*")
  | _ => (d, "bad-op")

end ConcDirLock

/-
Driver part for C33 (directory lock).  Ops:

  dl.new               fresh directory
  dl.spawn <tid>       a contender that will call AcquireDirLock and, if it succeeds, Release
  dl.step <tid>        run <tid> up to its next yield point (one system call)
                       → <ok|multi>:<opened|locked|held|failed|rel1|rel2|done> | ok:finished
  dl.stat              → exists | absent   (the LOCK file)
-/
import Driver.Lib
import NoKVModel.Base.Cfg
import NoKVModel.Conc.DirLock

namespace ConcDirLock
open NoKV NoKV.Conc NoKV.Conc.DirLock Driver

structure DSt where
  c : DLCfg := DLCfg.good
  s : St := initSt
  tids : List Nat := []

def setCfg (d : DSt) (kv : String) : Option DSt :=
  match kv.splitOn "=" with
  | [k, v] =>
    match k with
    | "dirlock.releaseOrder" =>
      match v with
      | "unlock-close-remove" => some { d with c := { d.c with releaseOrder := .unlockCloseRemove } }
      | "remove-unlock-close" => some { d with c := { d.c with releaseOrder := .removeUnlockClose } }
      | "unlock-close" => some { d with c := { d.c with releaseOrder := .unlockClose } }
      | _ => none
    | "dirlock.acquireRechecks" => do let b ← boolOfString? v; pure { d with c := { d.c with acquireRechecks := b } }
    | "dirlock.acquireShape" | "dirlock.dbUsesLock" => if v == "true" then some d else none
    | _ => if k.startsWith "dirlock." then none else some d
  | _ => none

def pcName : PC → String
  | .open_ => "spawned"
  | .flock => "opened"
  | .recheck => "locked"
  | .held => "held"
  | .rel k => s!"rel{k + 1}"
  | .failed => "failed"
  | .done => "done"

/-- specification side: how many contenders hold the directory -/
def holders (d : DSt) : Nat :=
  (d.tids.filter fun t => match d.s.thr t with
    | some th => th.pc == PC.held
    | none => false).length

def step (d : DSt) (toks : List String) : DSt × String :=
  match toks with
  | ["dl.new"] => ({ d with s := initSt, tids := [] }, "ok\t*")
  | ["dl.spawn", t] =>
    match natOf? t with
    | some tid =>
      match DirLock.step d.c d.s (.spawn tid) with
      | some s' => ({ d with s := s', tids := d.tids ++ [tid] }, "ok\t*")
      | none => (d, "bad-op")
    | none => (d, "bad-op")
  | ["dl.step", t] =>
    match natOf? t with
    | some tid =>
      match DirLock.step d.c d.s (.run tid) with
      | some s' =>
        let d' := { d with s := s' }
        let nm := match s'.thr tid with
          | some th => pcName th.pc
          | none => "?"
        (d', (if holders d' ≥ 2 then "multi" else "ok") ++ ":" ++ nm ++ "\tok:*")
      | none => (d, "ok:finished\tok:*")
    | none => (d, "bad-op")
  | ["dl.stat"] => (d, (if d.s.name.isSome then "exists" else "absent") ++ "\t*")
  | _ => (d, "bad-op")

end ConcDirLock

-- stub: replaced by the redis engine driver
def main : IO Unit := pure ()

/-
Line-protocol driver for the Redis engine (C31 RESP parser, C29 gateway commands).
Reply format: `<model>\t<spec>`; spec patterns: `*` anything, `a|b` alternatives, `pre*` prefix.

  parse <hex>          parseRESP looped over the byte stream (hook child of the real binary)
  conn <hex>           the same bytes sent to the real server over TCP: does it survive, what did it allocate
  echo <hex>           ECHO / PING commands with lines of any length sent to the real server: the exact replies
  zero <hex>           frames that carry no command (`*0`, `*-1`, blank lines) sent to the real server, then
                       `PING`: handleConn must skip them and still answer `+PONG`
  pipe <sizes> <a,a;a,a,a;…>   several commands written back to back in pieces of the given sizes
  parse/echo take an optional last token `<size.size.…>`: the pieces in which the bytes are delivered
  cmd <hex> <hex> …    one command (RESP array of bulk strings) on the current connection
-/
import Driver.Lib
import NoKVModel.Redis.Resp
import NoKVModel.Redis.Gateway
import NoKVModel.Base.Cfg

open NoKV NoKV.Redis Driver

/-- frozen clock of the model (ms); the generators keep every expiry years away from it -/
def modelNowMs : Nat := 1800000000000

structure DSt where
  pc : PCfg := PCfg.good
  gc : GCfg := GCfg.good
  gw : St := {}
  sp : St := {}

def setCfg (st : DSt) (kv : String) : Option DSt :=
  match kv.splitOn "=" with
  | [k, v] =>
    match k with
    | "resp.arrayPrealloc" =>
      if v == "declared" then some { st with pc := { st.pc with arrPreallocCapped := false } }
      else match v.splitOn ":" with
        | ["min", n] => do let n ← natOf? n; pure { st with pc := { st.pc with arrPreallocCapped := true, arrCap := n } }
        | _ => none
    | "resp.bulkRead" =>
      if v == "declared" then some { st with pc := { st.pc with bulkChunked := false } }
      else match v.splitOn ":" with
        | ["chunked", n] => do let n ← natOf? n; pure { st with pc := { st.pc with bulkChunked := true, bulkChunk := n } }
        | _ => none
    -- structural facts: the model has exactly one behaviour for each
    | "conn.skipEmpty" => if v == "len0" then some st else none
    | "resp.otherMakes" => if v == "none" then some st else none
    | "resp.lenParser" => if v == "atoi" then some st else none
    | "resp.negArrayNil" => if v == "true" then some st else none
    | "resp.negBulkNil" => if v == "true" then some st else none
    | "resp.bulkCopy" => if v == "copy" then some st else none
    | "resp.lineRead" => if v == "unbounded" then some st else none
    | "resp.lineTerm" => if v == "crlf" then some st else none
    | "resp.crlfAfterBulk" => if v == "true" then some st else none
    | "gw.commands" => if v == "PING,ECHO,GET,SET,DEL,MGET,MSET,INCR,DECR,INCRBY,DECRBY,EXISTS,QUIT" then some st else none
    | "gw.overflowCheck" => if v == "range-before-add" then some st else none
    | "gw.nameFold" => if v == "upper" then some st else none
    | "gw.incrEmptyAsZero" => do let b ← boolOfString? v; pure { st with gc := { st.gc with incrEmptyAsZero := b } }
    | "gw.intParseLax" => do let b ← boolOfString? v; pure { st with gc := { st.gc with intParseLax := b } }
    | "gw.decrbyMinChecked" => do let b ← boolOfString? v; pure { st with gc := { st.gc with decrbyMinChecked := b } }
    | "gw.pxatSubSecondOk" => do let b ← boolOfString? v; pure { st with gc := { st.gc with pxatSubSecondOk := b } }
    | "gw.expireRangeChecked" => do let b ← boolOfString? v; pure { st with gc := { st.gc with expireRangeChecked := b } }
    | "gw.emptyKeyOk" => do let b ← boolOfString? v; pure { st with gc := { st.gc with emptyKeyOk := b } }
    | "gw.emptyValueKept" => do let b ← boolOfString? v; pure { st with gc := { st.gc with emptyValueKept := b } }
    | "gw.pingStrict" => do let b ← boolOfString? v; pure { st with gc := { st.gc with pingStrict := b } }
    | _ => none
  | _ => none

def argStr : Arg → String
  | none => "~"
  | some b => b.toHex

def frameStr (f : List Arg) : String := "[" ++ ",".intercalate (f.map argStr) ++ "]"

def framesStr (fs : List (List Arg)) : String := ";".intercalate (fs.map frameStr)

def connStr (r : ConnRes) (inputLen : Nat) : String :=
  let status :=
    match r.fin with
    | .panic => "unsafe:panic"
    | .oom => "unsafe:oom"
    | .err _ => if memBig r.alloc inputLen then "unsafe:mem" else "safe"
  -- a panicking / dying process reports no frames
  let fs := match r.fin with
    | .err _ => framesStr r.frames
    | _ => ""
  s!"{status} end={r.fin.str} f={fs}"

/-- all arguments present (no nil bulk) -/
def plainFrame (f : List Arg) : Option (List Bytes) := f.mapM id

def isWord (w : Bytes) : Bool := !w.isEmpty && w.all (fun x => decide (33 ≤ x ∧ x ≤ 126))

/-- an inline command: printable ASCII words separated by one space, CR LF -/
def encodeInline (f : List Bytes) : Option Bytes :=
  match f with
  | [] => none
  | w :: ws =>
    if (w :: ws).all isWord && w.head? != some 42 then
      some (ws.foldl (fun acc x => acc ++ [32] ++ x) w ++ crlf)
    else none

def dropPrefix? : Bytes → Bytes → Option Bytes
  | [], b => some b
  | _ :: _, [] => none
  | x :: xs, y :: ys => if x = y then dropPrefix? xs ys else none

def matchFrames : List (List Bytes) → Bytes → Bool
  | [], b => b.isEmpty
  | f :: fs, b =>
    (match dropPrefix? (encodeArray f) b with
     | some rest => matchFrames fs rest
     | none => false) ||
    (match encodeInline f with
     | some e => (match dropPrefix? e b with
        | some rest => matchFrames fs rest
        | none => false)
     | none => false)

/-- The input is exactly a sequence of canonically encoded argument arrays / plain inline
commands: then the property fixes the outcome completely (the encodings are injective). -/
def wellFormedAs (b : Bytes) (frames : List (List Arg)) : Bool :=
  match frames.mapM plainFrame with
  | none => false
  | some fs => matchFrames fs b

def bigConn (alloc inputLen : Nat) : Bool := decide (64 * inputLen + 33554432 < alloc)

def replyStr : Reply → String
  | .ok => "+OK" | .pong => "+PONG" | .nil => "nil"
  | .bulk b => "bulk:" ++ b.toHex
  | .int i => "int:" ++ toString i
  | .arr l => "arr:[" ++ ",".intercalate (l.map fun x => match x with | none => "nil" | some b => b.toHex) ++ "]"
  | .err k => "-" ++ k.str
  | .quit => "+OK/closed"
  | .closed => "closed"

def cksum (b : Bytes) : Nat := b.foldl (fun a x => (a * 31 + x) % 4294967296) 0

/-- reply of `execute` to `ECHO x` / `PING` (the only commands the `echo` op uses) -/
def echoReply (f : List Arg) : Option String :=
  match f with
  | [some name] => if upper name = str "PING" then some "pong" else none
  | [some name, some x] =>
    if upper name = str "ECHO" then some s!"bulk{x.length}/{cksum x}" else none
  | _ => none

def parseOp (st : DSt) (h : String) : String :=
  match bytesOf? h with
  | some b =>
    let r := parseConn st.pc b
    let good := parseConn PCfg.good b
    let spec := if wellFormedAs b good.frames then connStr good b.length else "safe*"
    connStr r b.length ++ "\t" ++ spec
  | none => "bad-op"

/-- ECHO / PING commands (inline or arrays, any line length) on one connection of the real server -/
def echoOp (st : DSt) (h : String) : String :=
  match bytesOf? h with
  | some b =>
    let r := parseConn st.pc b
    let good := parseConn PCfg.good b
    let cmds := r.frames.filter (fun f => !f.isEmpty)
    let out := match r.fin with
      | .panic => "crash"
      | .oom => "crash"
      | .err e =>
        if e == .eof then
          match cmds.mapM echoReply with
          | some rs => ",".intercalate rs
          | none => "n/a"
        else "n/a"
    let spec := if out == "n/a" || !(wellFormedAs b good.frames) then "*" else out
    out ++ "\t" ++ spec
  | none => "bad-op"

def step (st : DSt) (toks : List String) : DSt × String :=
  match toks with
  | "cfg" :: kvs =>
    match kvs.foldlM setCfg st with
    | some st' => (st', "ok")
    | none => (st, "bad-cfg")
  | ["parse", h] => (st, parseOp st h)
  -- third token = the pieces in which the reader receives the stream: the parse is a function of
  -- the bytes alone, so the model ignores it
  | ["parse", h, _] => (st, parseOp st h)
  | ["echo", h, _] => (st, echoOp st h)
  | ["pipe", _, cs] =>
    -- several commands written back to back (in pieces), one reply each
    match (cs.splitOn ";").mapM (fun c => (c.splitOn ",").mapM bytesOf?) with
    | some cmds =>
      if cmds.any (·.isEmpty) then (st, "bad-op") else
      let (g, s, outs) := cmds.foldl (fun (acc : St × St × List (String × String)) args =>
          let g := gwStep st.gc modelNowMs acc.1 args
          let s := spStep modelNowMs acc.2.1 args
          (g.1, s.1, acc.2.2 ++ [(replyStr g.2, replyStr s.2)])) (st.gw, st.sp, [])
      ({ st with gw := g, sp := s },
        ";".intercalate (outs.map (·.1)) ++ "\t" ++ ";".intercalate (outs.map (·.2)))
    | none => (st, "bad-op")
  | ["conn", h] =>
    match bytesOf? h with
    | some b =>
      let r := parseConn st.pc b
      let out := match r.fin with
        | .panic => "crash"
        | .oom => "crash"
        | .err _ => if bigConn r.alloc b.length then "alive mem=big" else "alive mem=ok"
      (st, out ++ "\talive mem=ok")
    | none => (st, "bad-op")
  | ["zero", h] =>
    match bytesOf? h with
    | some b =>
      -- handleConn: a frame with no arguments is skipped (`len(args) == 0`), everything else goes to execute
      let r := parseConn st.pc (b ++ [80, 73, 78, 71, 13, 10])
      let cmds := r.frames.filter (fun f => !f.isEmpty)
      let out := match r.fin with
        | .panic => "crash"
        | .oom => "crash"
        | .err e => if e == .eof && cmds == [[some [80, 73, 78, 71]]] then "pong" else "n/a"
      (st, out ++ "\t" ++ (if out == "n/a" then "*" else "pong"))
    | none => (st, "bad-op")
  | ["echo", h] => (st, echoOp st h)
  | "cmd" :: hs =>
    match hs.mapM bytesOf? with
    | some args =>
      if args.isEmpty then (st, "bad-op") else
      let g := gwStep st.gc modelNowMs st.gw args
      let s := spStep modelNowMs st.sp args
      ({ st with gw := g.1, sp := s.1 }, replyStr g.2 ++ "\t" ++ replyStr s.2)
    | none => (st, "bad-op")
  | _ => (st, "bad-op")

def main : IO Unit := Driver.loop ({} : DSt) step

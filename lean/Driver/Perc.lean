/-
Line-protocol driver for the Percolator engine (C17, C18, C19).
Reply format: `<model>\t<spec>`; spec patterns: `*` anything, `a|b` alternatives, `pre*` prefix.

The spec column is computed from the properties' own wording, not from the handler code:
* reads (C17): "blocked if a lock with start ts ≤ t is present, otherwise the value of the newest
  committed put/delete with commit ts ≤ t" evaluated over the *logical* content of the three column
  families — the most recent write of every internal key, wherever rotation / flush / compaction
  have put it (`St.logical`; `specGet`, `specScan` below share no code with `getK`/`scanLoop`);
* C18: a commit or a prewrite naming a key that carries a rollback record of that transaction must fail;
  an exact duplicate of an earlier `pw` line that finds the transaction's own lock on a key leaves
  that lock exactly as it was (read back by `lock`);
  `inv` counts committed records of one key with overlapping [start, commit] (must be 0);
* maintenance ops (`rotate`, `flush`, `compact l0move|keep|drain`) move the physical records
  (`Perc/Phys.lean` over `Lsm/Model.lean`); the spec does not look at them: what a key reports is
  independent of where its records sit;
* C19: a ghost lock per key driven only by the request/response history (set by a successful
  prewrite, cleared by commit/rollback/resolve/expiry of *that* transaction), the TTL rule and the
  min-commit rule in unbounded arithmetic.
Domain: the properties (and the theorems, `Req.WF`) speak of protocol requests, whose commit ts is
above their start ts.  The generator also sends a few commits with commit ts ≤ start ts; the model
follows the code on them, but the keys they name leave the domain (`St.outside`) and the spec
column claims nothing about those keys afterwards.  Nothing is relaxed for any other key.
-/
import Driver.Lib
import NoKVModel.Perc.Phys

open NoKV NoKV.Perc NoKV.Perc.Phys Driver

inductive Ghost where
  | unknown
  | free
  | held (start ttl minCommit : Nat)
  deriving DecidableEq, Repr

structure St where
  c : PercCfg := PercCfg.good
  prop : String := "all"
  /-- LSM decisions (facts `lsm.*`, `merge.eqKeeps`, shared with the lsm engine) -/
  lc : Lsm.Cfg := Lsm.Cfg.good
  /-- the physical store: every record of the three column families in its memtable / table -/
  ls : Lsm.St := {}
  /-- the same writes, never moved: everything stays in one memtable, so that `view` over it is the
  logical content of the three column families (the most recent write of every internal key) -/
  lg : Lsm.St := {}
  keys : List Bytes := []          -- ascending, distinct: every key a request has named
  ghost : List (Bytes × Ghost) := []
  /-- keys on which a request outside the properties' domain was sent (a commit / resolve-commit
  whose commit ts is not above its start ts, `Req.WF` of the theorems): from then on the three
  properties claim nothing about these keys, the spec column answers `*` for them. -/
  outside : List Bytes := []
  /-- C18, re-sent requests: the `pw` lines seen so far, and for the keys of an exact duplicate that
  found the transaction's own lock in place, the lock as it was (a duplicate changes nothing) -/
  seenPw : List String := []
  keepLock : List (Bytes × String) := []

/-- the per-key state the handlers see: read back through the code's read paths -/
def St.s (st : St) : Store := view st.lc st.ls

/-- the logical per-key state (specification side of the reads): what was written, wherever it sits -/
def St.logical (st : St) : Store := view Lsm.Cfg.good st.lg

/-- install the physical store after a request and replay the entries it wrote on the logical one -/
def St.withLs (st : St) (ls' : Lsm.St) : St :=
  let written := ls'.mem.filter (fun e => !st.ls.mem.contains e)
  { st with ls := ls', lg := written.foldr (fun e acc => putMem acc e) st.lg }

def insKey (k : Bytes) : List Bytes → List Bytes
  | [] => [k]
  | x :: xs => if x = k then x :: xs else if Bytes.lt k x then k :: x :: xs else x :: insKey k xs

def addKeys (st : St) (ks : List Bytes) : St :=
  { st with keys := ks.foldl (fun acc k => if k = [] then acc else insKey k acc) st.keys }

def ghostOf (st : St) (k : Bytes) : Ghost :=
  match st.ghost.find? (fun p => p.1 = k) with
  | some p => p.2
  | none => .free

def setGhost (st : St) (k : Bytes) (g : Ghost) : St :=
  { st with ghost := (k, g) :: st.ghost.filter (fun p => p.1 ≠ k) }

def splitList (s : String) (sep : String) : List String :=
  if s == "-" || s == "" then [] else s.splitOn sep

def kindStr : Kind → String
  | .put => "put" | .del => "del" | .lock => "lock" | .rollback => "rollback"

def lockFields (l : Lock) : String :=
  s!"{l.ts},{l.ttl},{kindStr l.kind},{l.minCommit},{l.primary.toHex}"

def abortStr : AbortWhy → String
  | .emptyKey => "emptykey" | .badOp => "badop" | .noLock => "nolock" | .rolledBack => "rolledback"

def errStr : KeyErr → String
  | .locked k l => s!"locked({k.toHex},{lockFields l})"
  | .conflict k p a b c => s!"conflict({k.toHex},{p.toHex},{a},{b},{c})"
  | .abort w => s!"abort({abortStr w})"
  | .expired k a b => s!"expired({k.toHex},{a},{b})"
  | .retry => "retry"

def optErrStr : Option KeyErr → String
  | none => "ok"
  | some e => "err:" ++ errStr e

def readStr (k : Bytes) : ReadRes → String
  | .notFound => "notfound"
  | .value v => "val:" ++ v.toHex
  | .locked l => s!"locked({k.toHex},{lockFields l})"

def scanStr (o : ScanOut) : String :=
  let kvs := o.kvs.map (fun p => p.1.toHex ++ "=" ++ p.2.toHex)
  let e := match o.err with
    | some (k, l) => s!"locked({k.toHex},{lockFields l})"
    | none => "-"
  "kvs=" ++ (if kvs.isEmpty then "-" else ",".intercalate kvs) ++ ";err=" ++ e

/-! ### specification side -/

def isData (k : Kind) : Bool := k == .put || k == .del

/-- newest committed put/delete with commit ts ≤ t (maximum search, no order assumed) -/
def specNewest (t : Nat) (ws : List WRec) : Option WRec :=
  ws.foldl (fun best w =>
    if w.ts ≤ t && isData w.kind then
      match best with
      | some b => if b.ts < w.ts then some w else some b
      | none => some w
    else best) none

def specGet (ks : KS) (t : Nat) : ReadRes :=
  let blocked : Option Lock := match ks.lock with
    | some l => if l.ts ≤ t then some l else none
    | none => none
  match blocked with
  | some l => .locked l
  | none =>
    match specNewest t ks.writes with
    | none => .notFound
    | some w =>
      if w.kind == .del then .notFound
      else match ks.defs.find? (fun d => d.ts = w.start) with
        | some d => (match d.val with
          | some v => .value v
          | none => .notFound)
        | none => .notFound

def specScan (s : Store) (startKey : Bytes) (incl : Bool) (t : Nat) : Nat → List Bytes → ScanOut
  | 0, _ => ⟨[], none⟩
  | _, [] => ⟨[], none⟩
  | room + 1, k :: rest =>
    let inRange := startKey == [] || Bytes.lt startKey k || (incl && k == startKey)
    if !inRange then specScan s startKey incl t (room + 1) rest
    else match specGet (s k) t with
      | .locked l => ⟨[], some (k, l)⟩
      | .value v =>
        let r := specScan s startKey incl t room rest
        ⟨(k, v) :: r.kvs, r.err⟩
      | .notFound => specScan s startKey incl t (room + 1) rest

/-- pairs of committed (non-rollback) records of one key whose [start, commit] intervals overlap -/
def overlapsOfKey (ws : List WRec) : Nat :=
  let cs := ws.filter (fun w => w.kind != .rollback)
  let rec go : List WRec → Nat
    | [] => 0
    | a :: rest => (rest.filter (fun b => !(a.ts < b.start || b.ts < a.start))).length + go rest
  go cs

/-! ### parsing -/

def parseMut? (s : String) : Option Mut :=
  match s.splitOn ":" with
  | [o, k, v] => do
    let k ← bytesOf? k
    let v ← bytesOf? v
    let op ← (match o with
      | "P" => some MutOp.put | "D" => some MutOp.del | "L" => some MutOp.lock | "X" => some MutOp.other
      | _ => none)
    pure ⟨op, k, v⟩
  | _ => none

def parseKeys? (s : String) : Option (List Bytes) := (splitList s ",").mapM bytesOf?

def setCfg (st : St) (kv : String) : Option St :=
  match kv.splitOn "=" with
  | [k, v] =>
    let b (f : Bool → PercCfg) : Option St := do let x ← boolOfString? v; pure { st with c := f x }
    let o (f : CmpOp → PercCfg) : Option St := do let x ← CmpOp.ofString? v; pure { st with c := f x }
    let lsm (f : Lsm.Cfg) : Option St := some { st with lc := f }
    let dir? : Option Lsm.Dir := if v == "oldestFirst" then some .oldestFirst else if v == "newestFirst" then some .newestFirst else none
    match k with
    | "prop" => some { st with prop := v }
    | "lsm.l0SearchDir" => do let d ← dir?; lsm { st.lc with l0SearchDir := d }
    | "lsm.tieRule" => do let x ← CmpOp.ofString? v; lsm { st.lc with tieRule := x }
    | "lsm.crossPick" =>
        if v == "firstHit" then lsm { st.lc with crossPick := .firstHit }
        else if v == "maxVersion" then lsm { st.lc with crossPick := .maxVersion } else none
    | "lsm.levelOrder" =>
        if v == "ingestFirst" then lsm { st.lc with levelOrder := .ingestFirst }
        else if v == "mainFirst" then lsm { st.lc with levelOrder := .mainFirst } else none
    | "lsm.ingestOrder" =>
        if v == "minKeyDesc" then lsm { st.lc with ingestOrder := .minKeyDesc }
        else if v == "recency" then lsm { st.lc with ingestOrder := .recency } else none
    | "lsm.immOrder" => do let d ← dir?; lsm { st.lc with immOrder := d }
    | "merge.eqKeeps" =>
        if v == "left" then lsm { st.lc with mergeKeeps := .left }
        else if v == "right" then lsm { st.lc with mergeKeeps := .right } else none
    | "lsm.compactTopOrder" =>
        if v == "reversed" then lsm { st.lc with compactTopOrder := .reversed }
        else if v == "forward" then lsm { st.lc with compactTopOrder := .forward } else none
    | "lsm.overlapRightKey" =>
        if v == "maxKey" then lsm { st.lc with overlapRightKey := .maxKey }
        else if v == "minKey" then lsm { st.lc with overlapRightKey := .minKey } else none
    | "lsm.zeroVersion" =>
        if v == "found" then lsm { st.lc with zeroVersionFound := true }
        else if v == "lost" then lsm { st.lc with zeroVersionFound := false } else none
    | "lsm.ingestScanStop" => if v == "prefixMax" then some st else none
    | "lsm.compactSplitRule" => if v == "userKeyBoundary" then some st else none
    | "db.plainKeyLimit" => do let x ← boolOfString? v; lsm { st.lc with plainKeyLimit := x }
    | "db.maxKeySize" => some st
    | "get.skipsRollback" => b fun x => { st.c with getSkipsRollback := x }
    | "get.skipsLock" => b fun x => { st.c with getSkipsLock := x }
    | "scan.skipsRollback" => b fun x => { st.c with scanSkipsRollback := x }
    | "scan.skipsLock" => b fun x => { st.c with scanSkipsLock := x }
    | "scan.seesLockOnlyKeys" => b fun x => { st.c with scanSeesLockOnlyKeys := x }
    | "get.lockOp" => o fun x => { st.c with getLockOp := x }
    | "scan.lockOp" => o fun x => { st.c with scanLockOp := x }
    | "get.tsOp" => o fun x => { st.c with getTsOp := x }
    | "scan.verOp" => o fun x => { st.c with scanVerOp := x }
    | "commit.checksRollback" => b fun x => { st.c with commitChecksRollback := x }
    | "prewrite.conflictOp" => o fun x => { st.c with conflictOp := x }
    | "rollback.checksOwner" => b fun x => { st.c with rollbackChecksOwner := x }
    | "ttl.op" => o fun x => { st.c with ttlOp := x }
    | "ttl.overflowGuard" => b fun x => { st.c with ttlOverflowGuard := x }
    | "commit.minCommitOp" => o fun x => { st.c with minCommitOp := x }
    | "prewrite.keepsOwnLock" => b fun x => { st.c with prewriteKeepsOwnLock := x }
    -- latch discipline: the model composes handlers as atomic steps whatever the value; a value
    -- other than "none" is a deviation of the fact itself (reported by the check)
    | "latch.readsBeforeAcquire" => some st
    | _ => none
  | _ => none

def wants (st : St) (p : String) : Bool := st.prop == "all" || st.prop == p

def isOutside (st : St) (k : Bytes) : Bool := st.outside.contains k

/-- a commit timestamp at or below the start timestamp: not a request of the protocol -/
def markOutside (st : St) (start ct : Nat) (keys : List Bytes) : St :=
  if ct ≤ start then { st with outside := keys.filter (· ≠ []) ++ st.outside } else st

/-! ### dump -/

def shapeStr (s : Lsm.St) : String :=
  s!"imm={s.imms.length} l0={s.l0.length} ing={s.ing.length} main={s.main.length}"

def dumpStr (st : St) : String :=
  let ds := st.keys.flatMap fun k =>
    ((st.s k).defs.filter (fun d => d.val.isSome)).map fun d => s!"D:{k.toHex}:{d.ts}:{(d.val.getD []).toHex}"
  let ls := st.keys.flatMap fun k =>
    match (st.s k).lock with
    | some l => [s!"L:{k.toHex}:{lockFields l}"]
    | none => []
  let ws := st.keys.flatMap fun k =>
    (st.s k).writes.map fun w => s!"W:{k.toHex}:{w.ts}:{w.start}:{kindStr w.kind}"
  let all := ds ++ ls ++ ws
  if all.isEmpty then "-" else ";".intercalate all

/-! ### ghost lock (C19), driven by requests and responses only -/

def errKey? : KeyErr → Option Bytes
  | .locked k _ => some k
  | .conflict k _ _ _ _ => some k
  | _ => none

def ghostAfterPrewrite (st : St) (h : PwHdr) (muts : List Mut) (errs : List KeyErr) : St :=
  let failed := errs.filterMap errKey?
  muts.foldl (fun st m =>
    if m.key = [] || m.op = .other || failed.contains m.key then st
    else setGhost st m.key (.held h.start h.ttl h.minCommit)) st

/-- a request of transaction `start` touched `keys`; `done` = it reported success -/
def ghostAfterEnd (st : St) (start : Nat) (keys : List Bytes) (done : Bool) (clearsFree : Bool) : St :=
  keys.foldl (fun st k =>
    if k = [] then st else
    match ghostOf st k with
    | .held s _ _ => if s = start then setGhost st k (if done then .free else .unknown) else st
    | .unknown => if done && clearsFree then setGhost st k .free else st
    | .free => st) st

def step (st : St) (toks : List String) : St × String :=
  match toks with
  | "cfg" :: kvs =>
    match kvs.foldlM setCfg st with
    | some st' => (st', "ok")
    | none => (st, "bad-cfg")
  | ["pw", start, primary, ttl, minc, muts] =>
    match natOf? start, bytesOf? primary, natOf? ttl, natOf? minc, (splitList muts ",").mapM parseMut? with
    | some start, some primary, some ttl, some minc, some ms =>
      let h : PwHdr := ⟨start, primary, ttl, minc⟩
      -- C18: a key of this request carries a rollback record of this transaction ⇒ it must not be locked again
      let rolledBack := ms.any fun m => m.key ≠ [] && m.op ≠ .other && !isOutside st m.key &&
        (st.s m.key).writes.any fun w => w.start = start && w.kind == .rollback
      let line := " ".intercalate toks
      let dup := st.seenPw.contains line
      -- C18: an exact duplicate of an earlier prewrite leaves the transaction's own lock as it is
      let keep := ms.filterMap fun m =>
        if dup && m.key ≠ [] && m.op ≠ .other && !isOutside st m.key then
          match (st.s m.key).lock with
          | some l => if l.ts = start then some (m.key, s!"lock({lockFields l})") else none
          | none => none
        else none
      let touched := ms.map (·.key)
      let st := { st with seenPw := line :: st.seenPw,
                          keepLock := keep ++ st.keepLock.filter (fun (p : Bytes × String) => !touched.contains p.1) }
      let r := prewritePhys st.c st.lc h st.ls ms
      let st := addKeys (st.withLs r.1) (ms.map (·.key))
      let st := ghostAfterPrewrite st h ms r.2
      let out := if r.2.isEmpty then "ok" else "err:" ++ ";".intercalate (r.2.map errStr)
      (st, out ++ "\t" ++ (if wants st "C18" && rolledBack then "err:*" else "*"))
    | _, _, _, _, _ => (st, "bad-op")
  | ["cm", start, ct, keys] =>
    match natOf? start, natOf? ct, parseKeys? keys with
    | some start, some ct, some ks =>
      -- C18: a key of this request carries a rollback record of this transaction ⇒ must fail
      let rolledBack := ks.any fun k => !isOutside st k &&
        (st.s k).writes.any fun w => w.start = start && w.kind == .rollback
      -- C19: the ghost lock's minimum commit timestamp is above the commit timestamp ⇒ must fail
      let belowMin := ks.any fun k => !isOutside st k && match ghostOf st k with
        | .held s _ m => s = start && ct < m
        | _ => false
      let malformed := decide (ct ≤ start)
      let st := markOutside st start ct ks
      let st := { st with keepLock := st.keepLock.filter (fun (p : Bytes × String) => !ks.contains p.1) }
      let r := commit st.c start ct st.s ks
      let st := addKeys (st.withLs (applyPhys st.c st.lc st.ls r.1 ks)) ks
      let st := ghostAfterEnd st start ks r.2.isNone true
      let spec := if !malformed && ((wants st "C18" && rolledBack) || (wants st "C19" && belowMin)) then "err:*" else "*"
      (st, optErrStr r.2 ++ "\t" ++ spec)
    | _, _, _ => (st, "bad-op")
  | ["rb", start, keys] =>
    match natOf? start, parseKeys? keys with
    | some start, some ks =>
      let st := { st with keepLock := st.keepLock.filter (fun (p : Bytes × String) => !ks.contains p.1) }
      let r := batchRollback st.c start st.s ks
      let st := addKeys (st.withLs (applyPhys st.c st.lc st.ls r.1 ks)) ks
      let st := ghostAfterEnd st start ks r.2.isNone false
      (st, optErrStr r.2 ++ "\t*")
    | _, _ => (st, "bad-op")
  | ["rl", start, ct, keys] =>
    match natOf? start, natOf? ct, parseKeys? keys with
    | some start, some ct, some ks =>
      let st := if ct = 0 then st else markOutside st start ct ks
      let st := { st with keepLock := st.keepLock.filter (fun (p : Bytes × String) => !ks.contains p.1) }
      let r := resolveLock st.c start ct st.s ks 0
      let st := addKeys (st.withLs (applyPhys st.c st.lc st.ls r.1 ks)) ks
      let st := ghostAfterEnd st start ks r.2.2.isNone false
      (st, optErrStr r.2.2 ++ s!":n={r.2.1}" ++ "\t*")
    | _, _, _ => (st, "bad-op")
  | ["cs", primary, lockTs, cur, rbne, caller] =>
    match bytesOf? primary, natOf? lockTs, natOf? cur, natOf? rbne, natOf? caller with
    | some primary, some lockTs, some cur, some rbne, some caller =>
      let q : CsReq := ⟨primary, lockTs, cur, rbne ≠ 0, caller⟩
      let g := ghostOf st primary
      let st := { st with keepLock := st.keepLock.filter (fun (p : Bytes × String) => p.1 ≠ primary) }
      let r := checkTxnStatus st.c q st.s
      let st := addKeys (st.withLs (applyPhys st.c st.lc st.ls r.1 [primary])) [primary]
      let resp := r.2
      let out := s!"cs:{match resp.err with | some e => errStr e | none => "-"}:{resp.ttl}:{resp.commitVersion}:{resp.action}"
      -- C19: the transaction may be rolled back only when ttl ≠ 0 and current ≥ start + ttl (no wrap)
      let spec := match g with
        | .held s ttl _ =>
          if s = lockTs && wants st "C19" && !isOutside st primary && !(ttl ≠ 0 && s + ttl ≤ cur) then s!"cs:-:{ttl}:0:0|cs:-:{ttl}:0:3" else "*"
        | _ => "*"
      let st := match g with
        | .held s ttl m =>
          if s = lockTs then
            (if resp.action = 1 then setGhost st primary .free
             else if resp.action = 3 then setGhost st primary (.held s ttl (Nat.max m ((caller + 1) % two64)))
             else if resp.err.isSome then setGhost st primary .unknown
             else st)
          else st
        | _ => st
      (st, out ++ "\t" ++ spec)
    | _, _, _, _, _ => (st, "bad-op")
  | ["get", key, ts] =>
    match bytesOf? key, natOf? ts with
    | some k, some t =>
      if k = [] then (st, "apply-error\t*") else
      let spec := if wants st "C17" && !isOutside st k then readStr k (specGet (st.logical k) t) else "*"
      (st, readStr k (get st.c st.s k t) ++ "\t" ++ spec)
    | _, _ => (st, "bad-op")
  | ["scan", startKey, incl, limit, ver] =>
    match bytesOf? startKey, natOf? incl, natOf? limit, natOf? ver with
    | some sk, some incl, some limit, some ver =>
      let r := scan st.c st.s st.keys sk (incl ≠ 0) limit ver
      let tainted := st.keys.any fun k => isOutside st k &&
        (sk == [] || Bytes.lt sk k || (incl ≠ 0 && k == sk))
      let spec := if wants st "C17" && !tainted then
          scanStr (specScan st.logical sk (incl ≠ 0) (if ver = 0 then two64 - 1 else ver) (if limit = 0 then 1 else limit) st.keys)
        else "*"
      (st, scanStr r ++ "\t" ++ spec)
    | _, _, _, _ => (st, "bad-op")
  | ["lock", key] =>
    match bytesOf? key with
    | some k =>
      let out := match (st.s k).lock with
        | some l => s!"lock({lockFields l})"
        | none => "none"
      let spec19 := if !wants st "C19" || isOutside st k then "*" else match ghostOf st k with
        | .held s _ _ => s!"lock({s},*"
        | .free => "none"
        | .unknown => "*"
      let spec := match st.keepLock.find? (fun p => p.1 = k) with
        | some p => if wants st "C18" && !isOutside st k then p.2 else spec19
        | none => spec19
      (st, out ++ "\t" ++ spec)
    | none => (st, "bad-op")
  -- Commit and CheckTxnStatus of the same primary queued on the key's latch in the given order
  -- ("cm-cs" / "cs-cm"); both are atomic steps under the latch, so the outcome is their sequential
  -- composition in grant order.  Only what does not depend on that order is printed (the caller ts
  -- is chosen so that a pushed min-commit ts does not refuse the commit); the state is observed by
  -- the following `lock` / `dump` ops.
  | ["race", key, start, ct, cur, caller, order] =>
    match bytesOf? key, natOf? start, natOf? ct, natOf? cur, natOf? caller with
    | some k, some start, some ct, some cur, some caller =>
      let q : CsReq := ⟨k, start, cur, false, caller⟩
      let doCm := fun (st : St) =>
        let r := commit st.c start ct st.s [k]
        (st.withLs (applyPhys st.c st.lc st.ls r.1 [k]), r.2)
      let doCs := fun (st : St) =>
        let r := checkTxnStatus st.c q st.s
        (st.withLs (applyPhys st.c st.lc st.ls r.1 [k]), r.2.err)
      let st := markOutside st start ct [k]
      let st := { st with keepLock := st.keepLock.filter (fun (p : Bytes × String) => p.1 ≠ k) }
      let (st, cmErr, csErr) :=
        if order == "cs-cm" then
          let (st1, e2) := doCs st
          let (st2, e1) := doCm st1
          (st2, e1, e2)
        else
          let (st1, e1) := doCm st
          let (st2, e2) := doCs st1
          (st2, e1, e2)
      let st := addKeys st [k]
      let st := setGhost st k (if cmErr.isNone then .free else .unknown)
      (st, s!"race:cm={optErrStr cmErr}:cs={if csErr.isSome then "err" else "ok"}" ++ "\t*")
    | _, _, _, _, _ => (st, "bad-op")
  | ["dump"] => (st, dumpStr st ++ "\t*")
  -- maintenance (same reply format as the lsm engine's driver)
  | ["rotate"] => let s := Lsm.rotate st.ls; ({ st with ls := s }, "ok " ++ shapeStr s ++ "\t*")
  | ["flush"] =>
    let s := Lsm.flush st.ls
    ({ st with ls := s }, (if st.ls.imms.isEmpty then "none " else "ok ") ++ shapeStr s ++ "\t*")
  | ["compact", kind] =>
    let r := match kind with
      | "l0move" => some (Lsm.l0move st.lc st.ls)
      | "keep" => some (Lsm.keep st.lc st.ls)
      | "drain" => some (Lsm.drain st.lc st.ls)
      | _ => none
    match r with
    | some (s, .done) => ({ st with ls := s }, "ok " ++ shapeStr s ++ "\t*")
    | some (s, .nothing) => ({ st with ls := s }, "nothing " ++ shapeStr s ++ "\t*")
    | some (_, .panic) => (st, "panic\t*")
    | none => (st, "bad-op")
  | ["inv"] =>
    let n := (st.keys.map fun k => overlapsOfKey (st.s k).writes).foldl (· + ·) 0
    (st, s!"overlap={n}" ++ "\t" ++ (if wants st "C18" && st.outside.isEmpty then "overlap=0" else "*"))
  | _ => (st, "bad-op")

def main : IO Unit := Driver.loop ({} : St) step

-- stub: replaced by the perc engine driver
def main : IO Unit := pure ()

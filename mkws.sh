#!/bin/sh
# mkws.sh <name>: private workspace for one contributor: /tmp/ws_<name>/repo (copy of /repo's
# working tree incl. .git) and /tmp/ws_<name>/verif (copy of /verif incl. build output) whose
# harness module is pinned to the private repo copy.  Use VERIF_REPO=/tmp/ws_<name>/repo.
set -e
W=/tmp/ws_$1
rm -rf "$W"; mkdir -p "$W"
rsync -a /repo/ "$W/repo/"
rsync -a --exclude .git /verif/ "$W/verif/"
sed -i "s#=> /repo#=> $W/repo#" "$W/verif/harness/go.mod"
echo "workspace $W ; export VERIF_REPO=$W/repo ; cd $W/verif"
